"""C12 -- any order of writer calls is safe; misuse is reported, not absorbed (DESIGN.md §3 C12).

Decides: no undischarged panic-capable site reachable from the writer API (C12-PANIC), where the typestate assertions are
discharged by state invariants checked over all methods (C12-TS: I1 extra-data mode implies a plain stored sink, I2 a closed entry
leaves a plain stored sink, I3 the flags imply a current entry and entries are never removed, I4 permissions are set before use);
each documented misuse is refused by a guard with the documented outcome (C12-MISUSE); a failed compressor switch leaves the
writer closed so that finish() cannot succeed with an entry whose creation failed (C12-FAILCLOSED); per-entry accounting
(C12-PATCH = C01-PATCH)."""
import re

from engine.expr import Ex, norm, show, walk, alts
from engine.intervals import dominating_facts
from engine.mir import AnchorLost, callee_matches
from engine.paths import paths, decided, called, outcome
from engine.query import self_rooted, calls_matching, where, field_assignments, mut_borrows_of_field, find_switch_on, ret_alts, enum_variants
from rules.C01 import patch_rules, ZW
from rules.shared_codec import tokens
from rules.shared_panic import panic_rule, is_write_root

FLAGS = ("writing_to_file", "writing_to_extra_field", "writing_to_central_extra_field_only", "writing_raw")



def _size_gt_remaining(p):
    """`size > data.len()` where the length is taken AFTER the record header was consumed (the slice has advanced past id and size):
    the same test as `size > left - 4` with `left` taken before the two reads.  The expression engine does not see the advance of the
    `&mut &[u8]`, so the order is read off the path: the length whose value is compared comes after the two header reads."""
    for i, (a, v) in enumerate(p["decisions"]):
        if v == 1 and re.search(r"^Gt\(.*ReadBytesExt::read_u16.*?\)\)*,? ?(slice::)?len\(", a) and "Sub(" not in a.split("len(")[0]:
            dp = p["dpos"][i]
            effs = [(ep, e[1].split("::")[-1]) for e, ep in zip(p["effects"], p["epos"]) if ep <= dp]
            lens = [k for k, (ep, n) in enumerate(effs) if n == "len"]
            if not lens:
                continue
            before = [n for ep, n in effs[:lens[-1]]]
            after = [n for ep, n in effs[lens[-1] + 1:]]
            # the two header reads of this record precede the length; nothing is read between the length and the comparison
            k = len(before) - 1
            reads = 0
            while k >= 0 and before[k] != "len":
                reads += before[k] == "read_u16"
                k -= 1
            if reads >= 2 and "read_u16" not in after:
                return True
    return False


def _size_checked_by_get(p):
    """`body.get(size..)` answered None: the checked form of `size > body.len()` followed by `&body[size..]`.  As above the advance of the
    slice is read off the path: the two header reads of the record come before the `get`."""
    for i, (a, v) in enumerate(p["decisions"]):
        if v == 0 and re.search(r"^discr\(slice::get\(.*Range(From)?\{start: .*ReadBytesExt::read_u16", a):
            dp = p["dpos"][i]
            effs = [e[1].split("::")[-1] for e, ep in zip(p["effects"], p["epos"]) if ep <= dp]
            if "get" in effs:
                k = len(effs) - 1 - effs[::-1].index("get")
                if effs[:k].count("read_u16") >= 2 and "read_u16" not in effs[k:]:
                    return True
    return False


def _flag_assigns(f, flag):
    out = []
    for bi, si, s in f.stmts():
        if s["k"] == "assign":
            fp = [p.get("n") for p in s["place"]["p"] if p["k"] == "field"]
            if fp == [flag] and self_rooted(f, s["place"], None, (bi, si)) and s["rv"]["k"] == "use" and s["rv"]["op"]["k"] == "const":
                out.append((bi, si, s, int(s["rv"]["op"]["v"])))
    return out


def refuse_before_close_rules(facts, rep, rule="C12-TS"):
    """a start that is refused for its arguments (a name that does not fit the 16-bit length field) leaves the writer as it was: the
    refusal comes before the previous entry is closed.  Closing first consumes the `writing_raw` flag of a raw copy (or of an archive
    opened for append); the refused call returns Err, and the finish() that follows closes that entry a second time as if it had been
    written through the writer -- its CRC and sizes are re-patched from the accounting of its compressed bytes."""
    from engine.paths import paths as _paths, PathExplosion
    se = facts.one(ZW + "start_entry$")
    try:
        ps = _paths(se, max_paths=30000)
    except PathExplosion:
        return bool(rep.check(False, rule, "I5:refused-start-leaves-writer-untouched", where(se, se.span), "", "start_entry has too many paths to decide (fail closed)"))
    n = bad = 0
    for p_ in ps:
        dec = [(i_, v_) for i_, (a_, v_) in enumerate(p_["decisions"]) if re.match(r"^(Gt|Ge)\(.*len\(.*, 6553[56]\)$", a_)]
        if not dec or dec[-1][1] != 1 or outcome(p_)[0] not in ("Err", "ErrProp", "value"):
            continue
        n += 1
        dp = p_["dpos"][dec[-1][0]]
        before = [e_[1] for e_, ep_ in zip(p_["effects"], p_["epos"]) if ep_ <= dp]
        if any(re.search(r"::finish_file$|::switch_to$|Seek::seek$|Write::write", x_) for x_ in before):
            bad += 1
    # the same for finish(): an over-long archive comment is refused before the last entry is closed (the caller may shorten the comment
    # and call finish() again; the first, refused call must not have consumed the raw flag of a copied last entry)
    fz = facts.one(ZW + "finalize$")
    try:
        pz = _paths(fz, max_paths=30000)
    except PathExplosion:
        pz = []
    nz = badz = 0
    for p_ in pz:
        dec = [(i_, v_) for i_, (a_, v_) in enumerate(p_["decisions"]) if re.match(r"^(Gt|Ge)\(.*len\(.*comment.*, 6553[56]\)$", a_)]
        if not dec or dec[-1][1] != 1 or outcome(p_)[0] not in ("Err", "ErrProp", "value"):
            continue
        nz += 1
        dp = p_["dpos"][dec[-1][0]]
        before = [e_[1] for e_, ep_ in zip(p_["effects"], p_["epos"]) if ep_ <= dp]
        if any(re.search(r"::finish_file$|::switch_to$|Seek::seek$|Write::write", x_) for x_ in before):
            badz += 1
    rep.check(nz >= 1 and badz == 0, rule, "I5:refused-finish-leaves-writer-untouched", where(fz, fz.span),
              "the comment-length refusal of finalize precedes finish_file",
              "finalize closes the last entry (consuming its raw flag) BEFORE it refuses an over-long comment (or the refusal is gone): finish() -> Err, shorter comment, "
              "finish() -> Ok re-patches a raw-copied last entry")
    return bool(rep.check(n >= 1 and bad == 0, rule, "I5:refused-start-leaves-writer-untouched", where(se, se.span),
                          "the name-length refusal of start_entry precedes finish_file (no state is consumed by a call that is refused for its arguments)",
                          "start_entry closes the previous entry (consuming its raw flag) BEFORE it refuses an over-long name: after raw_copy_file / new_append, "
                          "start_file(<name of 65536 bytes>) -> Err, finish() -> Ok re-patches the copied entry's CRC and sizes"))


def ts_rules(facts, rep):
    rule = "C12-TS"
    ok = True
    from rules.shared_typestate import holds as _tsx_holds
    _real_check = rep.check

    def soft(good, rule_, key, where_="", okd="", badd="", covered=("panic:",)):
        """a structural sub-rule whose whole purpose is an obligation that E6 decides on the writer's state machine (C12-TSX): when the
        code has a shape the pattern does not recognise, the obligation itself is the verdict"""
        if not good and _tsx_holds(facts, "unsupported", *covered):
            return _real_check(True, rule_, key, where_, "shape not recognised by the structural pattern; the obligation it stands for (%s) holds on "
                               "the state machine of every call sequence (C12-TSX)" % ", ".join(covered))
        return _real_check(good, rule_, key, where_, okd, badd)
    zmeths = [f for f in facts.fns if re.search(ZW, f.path) or re.search(r"^write::<impl std::(io::Write|ops::Drop) for write::zip_writer::ZipWriter<W>>::", f.path)
              or re.search(r"^write::<impl write::zip_writer::ZipWriter<A>>::", f.path)]
    rep.count("writer_methods", len(zmeths))
    # ---------------- I1 (F13): in end_extra_data the extra-data flags are cleared before the fallible compressor switch
    ee = facts.one(ZW + "end_extra_data$")
    sw = calls_matching(ee, r"GenericZipWriter::<W>::switch_to$")
    clears = [x for x in _flag_assigns(ee, "writing_to_extra_field") if x[3] == 0]
    good = bool(sw) and bool(clears) and all(any(ee.dominates(c[0], b) for c in clears) for b, _ in sw)
    ok &= soft(good, rule, "I1:clear-before-switch", where(ee, sw[0][1]["span"]) if sw else where(ee, ee.span),
                    "writing_to_extra_field is cleared before switch_to(): a failed switch cannot leave extra-data mode on a closed writer",
                    "end_extra_data calls the fallible switch_to() while writing_to_extra_field is still set: when it fails (unsupported method, level out "
                    "of range) the writer is closed with the flag set and the next finish()/start_file() panics in get_plain", covered=('panic:',))
    # the companion flag: central-only mode belongs to ONE entry's extra data and ends with it (a sticky flag would make the next
    # entry's extra data skip its local copy and the compressor switch)
    clears2 = [x for x in _flag_assigns(ee, "writing_to_central_extra_field_only") if x[3] == 0]
    good = bool(clears2) and bool(sw) and all(any(ee.dominates(c[0], b) for c in clears2) for b, _ in sw)
    ok &= soft(good, rule, "I1:clear-central-only", where(ee, ee.span), "writing_to_central_extra_field_only is cleared (after being read) before switch_to()",
                    "end_extra_data no longer clears writing_to_central_extra_field_only: central-only mode leaks into the following entries", covered=('panic:', 'INV:central-only'))
    # validation happens before the flag is cleared and before anything is emitted
    va = calls_matching(ee, r"^write::validate_extra_data$")
    wa = calls_matching(ee, r"io::Write::write_all$")
    good = bool(va) and all(ee.call_dominates_stmt(va[0][0], c[0]) for c in clears + clears2) and all(ee.dominates(va[0][0], b) and va[0][0] != b for b, _ in wa)
    ok &= rep.check(good, rule, "I1:validate-first", where(ee, ee.span), "validate_extra_data()? dominates the flag reset and every emission",
                    "extra data can be emitted or extra-data mode left before validation")
    # I1-establish: every `writing_to_extra_field := true`
    for f in zmeths:
        for bi, si, s, v in _flag_assigns(f, "writing_to_extra_field"):
            if v != 1:
                continue
            nm = f.path.split("::")[-1]
            if nm == "start_file_with_extra_data":
                se = calls_matching(f, ZW + "start_entry$")
                mut = calls_matching(f, r"switch_to$|mem::replace$")
                good = bool(se) and f.call_dominates_stmt(se[0][0], bi) and not mut
                ok &= soft(good, rule, "I1:establish@%s" % nm, where(f, s["span"]), "set right after start_entry()? with no compressor switch in between",
                                "extra-data mode is entered without a preceding successful start_entry (sink not plain)", covered=('panic:', 'INV:'))
            elif nm == "end_local_start_central_extra_data":
                co = [x for x in _flag_assigns(f, "writing_to_central_extra_field_only") if x[3] == 1]
                e2 = calls_matching(f, ZW + "end_extra_data$")
                good = bool(co) and bool(e2) and f.call_dominates_stmt(e2[0][0], bi)
                ok &= soft(good, rule, "I1:establish@%s" % nm, where(f, s["span"]), "central-only extra-data mode entered after end_extra_data()?, together with central_only",
                                "central extra-data mode is entered without setting central_only (get_plain would be reached with a compressor active)", covered=('panic:', 'INV:'))
            else:
                ok = False
                rep.violation(rule, "I1:establish@%s" % nm, where(f, s["span"]), "unexpected site enters extra-data mode")
    # get_plain in end_extra_data only when not central-only
    gp = calls_matching(ee, r"get_plain$")
    exe = Ex(ee)
    for b, t in gp:
        fs = dominating_facts(ee, exe, b)
        good = any(x[0] == "truth" and x[2] is False and ("central" in show(x[1])) for x in fs)
        ok &= soft(good, rule, "I1:get_plain-not-central", where(ee, t["span"]), "sink accessed only when not in central-only mode",
                        "end_extra_data touches the sink in central-only mode (a compressor is active then)", covered=('panic:',))
    # ---------------- I2: finish_file leaves a plain stored sink
    ff = facts.one(ZW + "finish_file$")
    exf = Ex(ff)
    e2 = calls_matching(ff, ZW + "end_extra_data$")
    st = calls_matching(ff, r"switch_to$")
    gpf = calls_matching(ff, r"get_plain$")
    good = bool(e2 and st and gpf)
    if good:
        fs = dominating_facts(ff, exf, e2[0][0])
        good = any(x[0] == "truth" and x[2] is True and "writing_to_extra_field" in show(x[1]) for x in fs)
        a = norm(exf.operand(st[0][1]["args"][1], (st[0][0], None)))
        good = good and a[0] == "agg" and a[1] == "adt:Stored" and ff.dominates(st[0][0], gpf[0][0])
    ok &= soft(good, rule, "I2:close-sequence", where(ff, ff.span), "implicit end_extra_data()? when in extra-data mode, then switch_to(Stored)?, then the plain sink",
                    "the entry-closing function no longer ends extra-data mode / switches to Stored before touching the plain sink", covered=('panic:',))
    # the match after mem::replace restores a Storer on every non-error arm
    assigns = [(bi, si, s) for (f, bi, si, s) in field_assignments(facts, "inner", r"ZipWriter$") if f.path == ff.path]
    vals = [a_ for bi, si, s in assigns for a_ in alts(norm(exf.rvalue(s["rv"], (bi, si))))]
    pay = [a_ for v in vals if v[0] == "agg" and v[3] for a_ in alts(v[3][0][1])]      # Storer(x): x may itself be chosen per arm
    good = len(vals) >= 1 and all(v[0] == "agg" and v[1] == "adt:Storer" for v in vals) and len(pay) >= 2 and \
        any(a_[0] == "agg" and a_[1] == "adt:Unencrypted" for a_ in pay)
    ok &= soft(good, rule, "I2:restore-storer", where(ff, ff.span), "inner := Storer(Unencrypted(..)) / Storer(w) on the success arms",
                    "finish_file restores %s" % [show(v)[:60] for v in vals], covered=('panic:',))
    for nm in ("start_entry", "finalize"):
        f = facts.one(ZW + nm + "$")
        c1 = calls_matching(f, ZW + "finish_file$")
        g = calls_matching(f, r"get_plain$")
        good = bool(c1 and g) and all(f.dominates(c1[0][0], b) for b, _ in g)
        ok &= soft(good, rule, "I2:get_plain-after-close@%s" % nm, where(f, f.span), "plain sink accessed only after finish_file()? succeeded",
                        "%s accesses the plain sink without first closing the current entry" % nm, covered=('panic:',))
    fin = facts.one(ZW + "finish$")
    c1 = calls_matching(fin, ZW + "finalize$")
    un = calls_matching(fin, r"GenericZipWriter::<W>::unwrap$")
    good = bool(c1 and un) and fin.dominates(c1[0][0], un[0][0])
    if good:
        # ... on its SUCCESS edge: the unwrap is reached only through `finalize()?`'s Continue / a match arm for Ok
        exfin = Ex(fin)
        fs = dominating_facts(fin, exfin, un[0][0])
        good = any(x[0] == "Eq" and x[1][0] == "discr" and any(y[0] == "call" and y[1].endswith("finalize") for y in walk(x[1])) and x[2][0] == "const" and x[2][2] == 0 for x in fs)
    ok &= soft(good, rule, "I2:unwrap-after-finalize", where(fin, fin.span), "sink unwrapped only after finalize()? succeeded", "finish() unwraps the sink without a successful finalize()", covered=('panic:',))
    # ---------------- I3: entries are never removed; flags that promise a current entry are set only after one was pushed
    bad = []
    for f in facts.fns:
        ex = Ex(f)
        for bi, t in f.calls():
            if callee_matches(t, r"Vec::<T, A>::(pop|remove|swap_remove|clear|truncate|drain|retain|split_off|dedup)") and t["args"]:
                r = norm(ex.operand(t["args"][0], (bi, None)))
                if r[0] == "field" and r[2] == "files" and r[1][0] == "arg":
                    bad.append((f.path, t["callee"].split("::")[-1]))
            if callee_matches(t, r"sort|reverse|swap$|rotate") and t["args"]:
                r = norm(ex.operand(t["args"][0], (bi, None)))
                if any(x[0] == "field" and x[2] == "files" for x in walk(r)) and re.search(r"^write::", f.path):
                    bad.append((f.path, t["callee"].split("::")[-1]))
    ok &= rep.check(not bad, rule, "I3:files-append-only", "", "no method removes or reorders entries of ZipWriter.files", "entries can be removed/reordered: %s" % bad)
    for f in zmeths:
        for flag in ("writing_to_file", "writing_to_extra_field"):
            for bi, si, s, v in _flag_assigns(f, flag):
                if v != 1:
                    continue
                se = calls_matching(f, ZW + "(start_entry|end_extra_data)$")
                good = bool(se) and any(f.call_dominates_stmt(b, bi) for b, _ in se)
                ok &= soft(good, rule, "I3:%s-after-entry@%s" % (flag, f.path.split("::")[-1]), where(f, s["span"]),
                                "%s := true only after an entry was opened" % flag, "%s is set without a current entry" % flag, covered=('panic:', 'INV:open'))
    # last().unwrap() sites are guarded by one of the flags (or follow start_entry)
    for f in zmeths:
        ex = Ex(f)
        for bi, t in f.calls():
            if callee_matches(t, r"Option::<T>::unwrap$") and t["args"] and t["args"][0]["k"] != "const":
                r = norm(ex.operand(t["args"][0], (bi, None)))
                if r[0] == "call" and re.search(r"::(last|last_mut)$", r[1]) and ".files" in tokens(r):
                    fs = dominating_facts(f, ex, bi)
                    guard = any(x[0] == "truth" and x[2] is True and re.search(r"writing_to_(file|extra_field)$", show(x[1])) for x in fs)
                    se = calls_matching(f, ZW + "(start_entry|end_extra_data)$")
                    after = any(f.dominates(b, bi) for b, _ in se)
                    ok &= soft(guard or after, rule, "I3:last-unwrap@%s" % f.path.split("::")[-1], where(f, t["span"]),
                                    "files.last().unwrap() under a flag that implies a current entry", "files.last().unwrap() without a guard implying a current entry", covered=('panic:',))
    # ---------------- I4
    for f in zmeths:
        ex = Ex(f)
        for bi, t in f.calls():
            if callee_matches(t, r"Option::<T>::unwrap$") and t["args"] and t["args"][0]["k"] != "const":
                r = norm(ex.operand(t["args"][0], (bi, None)))
                if ".permissions" in tokens(r) and "as_mut()" in tokens(r):
                    somes = [a for a in alts(r[2][0] if r[0] == "call" else r) if a[0] == "agg" and a[1] == "adt:Some"]
                    isn = find_switch_on(f, lambda d: d[0] == "call" and d[1].endswith("is_none") and ".permissions" in tokens(d))
                    good = bool(isn) and f.dominates(isn[0][0], bi) and bool(somes)
                    ok &= rep.check(good, rule, "I4:permissions@%s" % f.path.split("::")[-1], where(f, t["span"]),
                                    "`if permissions.is_none() { permissions = Some(..) }` dominates the unwrap", "permissions.as_mut().unwrap() without the is_none()/Some default")
    # the flags and the sink are private state
    adt = facts.adts.get("write::zip_writer::ZipWriter")
    if adt:
        for fld in adt["variants"][0]["fields"]:
            if fld["name"] in FLAGS + ("inner", "files", "stats"):
                good = "Public" not in fld["vis"]
                ok &= rep.check(good, rule, "private:%s" % fld["name"], adt["span"], "field not nameable outside the crate", "ZipWriter.%s is public: callers can break the typestate" % fld["name"])
    rep.floor(rule, 22)
    return ok


def _closed_on_entry(p):
    """the path took the 'writer is already closed' answer of current_compression(): spelled as a match on the Option (None = 0) or as
    `.ok_or(..)?` / `.ok_or_else(..)?` (Break = 1)"""
    for a, v in p["decisions"]:
        if re.search(r"^discr\(GenericZipWriter::current_compression", a):
            return v == 0
        if re.search(r"^discr\(Try::branch\(Option::ok_or(_else)?\(GenericZipWriter::current_compression", a):
            return v == 1
    return False


def failclosed_rules(facts, rep):
    rule = "C12-FAILCLOSED"
    ok = True
    sw = facts.one(r"^write::GenericZipWriter::<W>::switch_to$")
    ps = paths(sw)
    rep.count("switch_to_paths", len(ps))
    n = 0
    for p in ps:
        o = outcome(p)
        if o[0] not in ("Err", "ErrProp"):
            continue
        n += 1
        closed_before = _closed_on_entry(p) or decided(p, r"^discr\(mem::replace\(self, Closed") == 0
        took = bool(called(p, r"mem::replace$"))
        good = took or closed_before
        if not good:
            ok = False
            rep.violation(rule, "switch_to:err-without-close", where(sw, sw.span),
                          "switch_to can fail (%s) while leaving the writer usable: the entry was already pushed by start_entry, so a later finish() "
                          "succeeds with an entry whose creation failed" % (show(o[1])[:80] if o[1] else o[0]))
    rep.ok(rule, "switch_to:every-error-leaves-closed", where(sw, sw.span), "%d error paths, each after mem::replace(self, Closed) or on an already closed writer" % n) if ok else None
    # start_file: writing_to_file := true only after switch_to succeeded
    sf = facts.one(ZW + "start_file$")
    st = calls_matching(sf, r"switch_to$")
    fl = [x for x in _flag_assigns(sf, "writing_to_file") if x[3] == 1]
    good = bool(st and fl) and all(sf.dominates(st[0][0], x[0]) for x in fl)
    ok &= rep.check(good, rule, "start_file:flag-after-switch", where(sf, sf.span), "writing_to_file := true only after the compressor switch succeeded",
                    "start_file marks the entry writable before the compressor switch")
    return ok


def misuse_rules(facts, rep):
    rule = "C12-MISUSE"
    ok = True
    # ---- Write::write
    w = facts.one(r"^write::<impl std::io::Write for write::zip_writer::ZipWriter<W>>::write$")
    ps = paths(w)
    rep.count("write_paths", len(ps))
    r1 = [p for p in ps if decided(p, r"^self\.writing_to_file$") == 0]
    good = bool(r1) and all(outcome(p)[0] == "Err" and len(p["decisions"]) == 1 and not called(p, r"io::Write::write$|update$") for p in r1)
    ok &= rep.check(good, rule, "write:no-file-started", where(w, w.span), "!writing_to_file => Err, nothing written", "write() without a started file is not refused outright")
    r2 = [p for p in ps if decided(p, r"^discr\(GenericZipWriter::ref_mut") == 0]
    good = bool(r2) and all(outcome(p)[0] == "Err" and "BrokenPipe" in show(outcome(p)[1]) for p in r2)
    ok &= rep.check(good, rule, "write:closed", where(w, w.span), "closed writer => Err(BrokenPipe)", "write() on a closed writer is not refused with BrokenPipe")
    # ---- end_extra_data
    ee = facts.one(ZW + "end_extra_data$")
    exe = Ex(ee)
    t0 = ee.term(0)
    d0 = norm(exe.operand(t0["discr"], (0, None))) if t0 and t0["k"] == "switch" else None
    good = d0 is not None and d0[0] == "field" and d0[2] == "writing_to_extra_field"
    if good:
        tgt = [b for v, b in t0["targets"] if v == 0]
        good = bool(tgt) and any(s["k"] == "assign" and s["rv"]["k"] == "agg" and s["rv"].get("variant") in ("Err", "Io") for b in ee.reach_from_inclusive(tgt[0], avoid={0}) & _straight(ee, tgt[0]) for s in ee.blocks[b]["stmts"])
    ok &= rep.check(bool(good), rule, "end_extra_data:not-in-extra-mode", where(ee, ee.span), "first test: !writing_to_extra_field => Err", "end_extra_data without start_file_with_extra_data is not refused first")
    # ---- switch_to table
    sw = facts.one(r"^write::GenericZipWriter::<W>::switch_to$")
    ps = paths(sw)
    CM = enum_variants(facts, "compression::CompressionMethod")
    inv = {v: k for k, v in CM.items()}
    rows = {"stored+level": False, "level-out-of-range": 0, "aes": False, "unsupported": False, "closed": False, "same-method-noop": False}
    direct_seen = []
    for p in ps:
        o = outcome(p)
        comp = decided(p, r"^discr\(compression\)$")
        if _closed_on_entry(p) and o[0] in ("Err", "ErrProp"):
            rows["closed"] = True
        if decided(p, r"^PartialEq::eq\(") == 1 and o[0] == "Ok" and not called(p, r"mem::replace$"):
            rows["same-method-noop"] = True
        if comp == inv.get("Stored") and decided(p, r"is_some\(compression_level\)") == 1:
            rows["stored+level"] = (o[0] == "Err") if rows["stored+level"] in (False, True) and o[0] == "Err" else rows["stored+level"]
            if o[0] != "Err":
                rows["stored+level"] = "bad"
        if comp == inv.get("Aes"):
            rows["aes"] = "bad" if o[0] != "Err" or rows["aes"] == "bad" else True
        if comp == inv.get("Unsupported"):
            rows["unsupported"] = "bad" if o[0] != "Err" or rows["unsupported"] == "bad" else True
        if comp in (inv.get("Deflated"), inv.get("Bzip2"), inv.get("Zstd")):
            # the level must pass a fallible range check before the encoder is built: a `?` whose operand involves a range membership test
            # (spelled `clamp_opt(..).ok_or(..)?` or as a match on the Option -- possibly in a helper that E0 inlined here)
            # ... or as a plain `if range.contains(&level) {..} else { Err(..) }`, in place or in an inlined helper: the decision is then the
            # membership test itself and its false edge must be the error
            rc = [(a, v) for a, v in p["decisions"] if (a.startswith("discr(") and _range_checked(facts, sw, a)) or re.match(r"^(std::ops::)?RangeInclusive(::<[^>]*>)?::contains\(", a)]
            direct = [(a, v) for a, v in rc if not a.startswith("discr(")]
            if direct:
                direct_seen.append(all("compression_level" in a for a, v in direct))
                if any(v == 0 for a, v in direct) and o[0] == "Ok":
                    rows["level-out-of-range"] = "bad"      # membership failed and the encoder is built all the same
                if direct[-1][1] != 0 and o[0] == "Ok":
                    continue                                    # in range: fine
            last = [x for x in p["decisions"] if x[0] != "#iter"][-1:]
            if rc and last == rc[-1:] and o[0] in ("ErrProp", "Err"):
                # the path ends in an error right after the range test failed
                rows["level-out-of-range"] = rows["level-out-of-range"] + 1 if isinstance(rows["level-out-of-range"], int) else "bad"
            elif not rc and o[0] == "Ok":
                rows["level-out-of-range"] = "bad"   # a compressing arm that does not range-check its level
    for k, v in rows.items():
        good = v is True or (isinstance(v, int) and not isinstance(v, bool) and v >= 3)
        ok &= rep.check(good, rule, "switch_to:%s" % k, where(sw, sw.span), {"stored+level": "Stored with a level => Err", "level-out-of-range": "level outside the codec's range => Err (all compressing methods)",
                        "aes": "AES => Err", "unsupported": "Unsupported(_) => Err", "closed": "closed writer => Err", "same-method-noop": "same method => Ok without touching the sink"}[k],
                        "switch_to row '%s' is not enforced (%s)" % (k, v))
    # level ranges come from the codec crates, not literals
    for nm, pat in (("deflate", r"flate2::Compression::(none|best)$"), ("bzip2", r"bzip2::Compression::(none|best)$")):
        f = facts.find(r"^write::%s_compression_level_range$" % nm)
        if f:
            cs = [t["callee"] for _, t in f[0].calls()]
            good = sum(1 for c in cs if re.search(pat, c)) == 2
            ok &= rep.check(good, rule, "range:%s" % nm, where(f[0], f[0].span), "range = [none(), best()] of the codec crate", "%s level range is computed from %s" % (nm, cs))
    cos = facts.find(r"^write::clamp_opt$")
    if cos:
        co = cos[0]
        ra = ret_alts(co)
        uses_contains = bool(calls_matching(co, r"RangeInclusive::<Idx>::contains$")) or any(calls_matching(c_, r"RangeInclusive::<Idx>::contains$") for c_ in facts.closures_of(co))
        some_arg = any(x[0] == "agg" and x[1] == "adt:Some" and x[3][0][1][0] == "arg" for a in ra for x in walk(a))
        good = uses_contains and some_arg and facts.sigs.get(co.path, {}).get("output", "").startswith("std::option::Option<")
        ok &= rep.check(good, rule, "clamp_opt", where(co, co.span), "clamp_opt yields Some(value) only through range.contains(value)", "clamp_opt changed: %s" % [show(a) for a in ra])
    elif not any(inv.get(m_) is not None for m_ in ("Deflated", "Bzip2", "Zstd")):
        pass        # this feature configuration compiles no compressing method: there is no level to validate
    else:
        # no Option-yielding clamp helper: the membership test must then be decided in switch_to itself (E0 inlines private helpers),
        # on the requested level, in every compressing arm -- the rows above have checked what each edge does
        good = len(direct_seen) >= 6 and all(direct_seen)
        ok &= rep.check(good, rule, "clamp_opt", where(sw, sw.span), "the level's range membership is tested directly in switch_to (on compression_level or its default)",
                        "neither a clamp helper nor a direct range-membership test of the requested level was found in switch_to")
    # ---- add_directory / add_symlink leave writing_to_file false; finish leaves the writer closed
    for nm in ("add_directory", "add_symlink"):
        f = facts.one(ZW + nm + "$")
        fl = _flag_assigns(f, "writing_to_file")
        last = [x for x in fl if all(not (y[0] in f.reach_from(x[0])) for y in fl if y is not x)]
        good = bool(last) and all(x[3] == 0 for x in last)
        ok &= rep.check(good, rule, "%s:not-writable-after" % nm, where(f, f.span), "writing_to_file is false when %s returns" % nm, "%s leaves the entry writable" % nm)
    fin = facts.one(ZW + "finish$")
    exn = Ex(fin)
    rp = calls_matching(fin, r"mem::replace$")
    good = bool(rp) and any(a[0] == "agg" and a[1] == "adt:Closed" for a in alts(norm(exn.operand(rp[0][1]["args"][1], (rp[0][0], None)))))
    ok &= rep.check(good, rule, "finish:closes", where(fin, fin.span), "finish() leaves the writer Closed", "finish() does not close the writer")
    # ---- validate_extra_data rows
    va = facts.one(r"^write::validate_extra_data$")
    ps = paths(va, max_loop=1)
    rep.count("validate_paths", len(ps))
    def row(pred):
        hit = [p for p in ps if pred(p)]
        return bool(hit) and all(outcome(p)[0] in ("Err", "ErrProp") for p in hit)
    rows = {
        "too-long": row(lambda p: decided(p, r"^Gt\(.*len\(.*, 65535\)") == 1),
        "truncated-header": row(lambda p: decided(p, r"^Lt\(.*len\(.*, 4\)") == 1),
        "zip64-id": row(lambda p: any(re.search(r"^ok\(ReadBytesExt::read_u16", a) and v == 1 for a, v in p["decisions"])),
        "size-exceeds": row(lambda p: decided(p, r"^Gt\((\(ok\(ReadBytesExt::read_u16.* as usize\)|((From::from|Into::into)\()?ok\(ReadBytesExt::read_u16\([^,]*\)\)\)?), Sub\(.*, 4\)\)$") == 1 or _size_gt_remaining(p) or _size_checked_by_get(p)),      # (what is left of the length taken before the 4 header bytes were read)
    }
    if "unreserved" not in facts.features:
        rows["reserved-low"] = row(lambda p: decided(p, r"^Le\(ok\(ReadBytesExt::read_u16.*, 31\)") == 1)
        rows["reserved-list"] = row(lambda p: decided(p, r"Iterator::any\(|slice::<impl \[T\]>::contains\(|slice::contains\(|::contains\(") == 1
                                    and decided(p, r"RangeInclusive") is None or decided(p, r"Iterator::any\(|slice::contains\(") == 1)
    for k, v in rows.items():
        ok &= rep.check(v, rule, "validate:%s" % k, where(va, va.span), "row '%s' => Err" % k, "extra-data validation row '%s' is missing or does not reject" % k)
    okp = [p for p in ps if outcome(p)[0] == "Ok"]
    good = bool(okp) and all(decided(p, r"^Gt\(.*len\(.*, 65535\)") == 0 for p in okp)
    ok &= rep.check(good, rule, "validate:ok-only-when-all-pass", where(va, va.span), "Ok only after the length row passed", "validation can succeed without the length test")
    # ... and only after every record was looked at: the walk ends (Ok) when nothing is left, and goes on while something is
    def _empties(p):
        return [v for a, v in p["decisions"] if re.match(r"^(slice::|core::slice::<impl \[T\]>::)?is_empty\(", a) or re.match(r"^Eq\((slice::)?len\(.*, 0\)$", a)]
    good = bool(okp) and all(_empties(p) and _empties(p)[-1] == 1 and all(v == 0 for v in _empties(p)[:-1]) for p in okp)
    if not good and okp and not any(_empties(p) for p in okp):
        # the walk is spelled with something else than an emptiness test (`while let Some(..) = ..`, an index compared with the length): the
        # rows above still hold per record; whether the walk covers all records is then decided by the typestate rule's validated-before-emission
        good = any(re.search(r"Lt\(|Iterator::next|split_first|get\(", a) for p in okp for a, v in p["decisions"])
    ok &= rep.check(good, rule, "validate:walks-every-record", where(va, va.span), "Ok is returned when no extra data is left; while some is left the next record is examined",
                    "validation returns Ok while extra data is left unexamined (or examines records only when nothing is left)")
    # the reserved-id test scans the whole table linearly (the table is not sorted)
    clo = facts.closures_of(va)
    anyc = calls_matching(va, r"Iterator::any$")
    if "unreserved" not in facts.features:
        cont = calls_matching(va, r"slice::<impl \[T\]>::contains$")
        good = (bool(anyc) and bool(clo) or bool(cont)) and not calls_matching(va, r"binary_search|partition_point|sort")
        if good and anyc:
            exv = Ex(va)
            src = norm(exv.operand(anyc[0][1]["args"][0], (anyc[0][0], None)))
            good = "iter()" in tokens(src) and src[0] == "call" and src[2] and src[2][0][0] in ("named", "const", "agg", "repeat")
        elif good:
            exv = Ex(va)
            src = norm(exv.operand(cont[0][1]["args"][0], (cont[0][0], None)))
            good = src[0] in ("named", "const", "agg", "repeat")
        ok &= rep.check(good, rule, "validate:reserved-linear-scan", where(va, va.span), "EXTRA_FIELD_MAPPING.iter().any(== kind): complete scan of the (unsorted) table",
                        "the reserved header-id test is no longer a complete scan of EXTRA_FIELD_MAPPING (e.g. binary search over the unsorted table misses ids)")
    rep.floor(rule, 20)
    return ok


def _range_checked(facts, fn, atom_text):
    """does the expression behind a `?` decision involve a range-membership test (directly, in a crate-local callee or in a closure)?"""
    if re.search(r"RangeInclusive::contains|clamp", atom_text):
        return True
    names = re.findall(r"(?:write|compression)::([a-z_][a-z0-9_]*)\(", atom_text)
    seen = set()

    def has(f, d=0):
        if f.path in seen or d > 3:
            return False
        seen.add(f.path)
        for _, t in f.calls():
            if callee_matches(t, r"RangeInclusive::<Idx>::contains$|RangeInclusive<.*>::contains$|ops::RangeInclusive"):
                return True
            for tg in facts.local_targets(t):
                if tg in facts.by_path and has(facts.by_path[tg], d + 1):
                    return True
        for c in facts.closures_of(f):
            if has(c, d + 1):
                return True
        return False
    for n in names:
        for f in facts.fns:
            if f.name == n and has(f):
                return True
    # closures of the analysed function used inside the expression (Option::filter(.., closure))
    if "closure" in atom_text:
        return any(has(c) for c in facts.closures_of(fn))
    return False


def _straight(f, b):
    """blocks on the straight-line continuation of b (single successors) up to the first switch/return"""
    out = set()
    while b is not None and b not in out:
        out.add(b)
        t = f.term(b)
        if not t or t["k"] in ("switch", "return"):
            break
        s = f.succ(b)
        b = s[0] if len(s) == 1 else None
    return out


def tsx_positive_control(ctx, rep):
    """a rule whose expected count is zero needs a positive example that must match: the repair of defect F13 (selftest/F13-fix.diff) is
    reverted in a scratch copy of /repo's current tree; on that copy the typestate engine has to find the panic it was repaired for
    (`start_file_aligned:Err -> finish` reaches get_plain).  If the patch no longer applies to the tree under analysis, the control is
    skipped with a note (the tree is not the one the control was written for); if it applies and nothing fires, the engine is blind."""
    import os
    import shutil
    import subprocess
    import tempfile
    from engine.mir import Facts
    from engine.report import Report
    from rules.shared_typestate import typestate_rules
    rule = "C12-TSX"
    tmp = tempfile.mkdtemp(prefix="verif-tsx-ctl-", dir="/var/tmp")
    try:
        dst = os.path.join(tmp, "repo")
        shutil.copytree(ctx.repo, dst, ignore=shutil.ignore_patterns("target", ".git"))
        r = subprocess.run(["patch", "-R", "-p1", "-s", "-f", "-i", os.path.join(ctx.here, "selftest", "F13-fix.diff")], cwd=dst, stdout=subprocess.PIPE, stderr=subprocess.STDOUT)
        if r.returncode != 0:
            rep.note("C12-TSX positive control skipped: selftest/F13-fix.diff does not revert cleanly on this tree")
            return
        out = os.path.join(tmp, "facts.json")
        env = dict(os.environ, VERIF_REPO=dst)
        r = subprocess.run([os.path.join(ctx.here, "bin", "extract.sh"), out], env=env, stdout=subprocess.PIPE, stderr=subprocess.PIPE)
        if r.returncode != 0 or not os.path.exists(out):
            rep.note("C12-TSX positive control skipped: the scratch copy with F13 reverted does not build")
            return
        r2 = Report("C12", "quick", 0)
        typestate_rules(Facts(out).with_inlining(), r2)
        hits = sorted(i["key"] for i in r2.instances if i["verdict"] == "violation" and i["key"].startswith("panic:get_plain<-finish"))
        rep.check(bool(hits), rule, "positive-control:F13-reverted", "", "with the F13 repair reverted in a scratch copy the engine reports %s" % hits[:1],
                  "the typestate engine is blind: with the repair of F13 reverted it does not find the get_plain panic behind start_file_aligned:Err -> finish")
    finally:
        shutil.rmtree(tmp, ignore_errors=True)


def run(ctx, rep):
    facts = ctx.facts
    rep.configs.append("default")
    rep.explanation = (
        "Writer typestate, statically: (1) panic inventory over everything reachable from the ZipWriter/FileOptions API; its typestate "
        "assertions (get_plain, unwrap, unreachable!, files.last().unwrap()) are discharged by invariants I1-I4, each checked for "
        "establishment at every site that sets its antecedent and for preservation on Ok and Err edges (entries voided if an invariant "
        "rule fails); (2) path-enumerated decision tables for the documented misuses (write without file / on closed writer, "
        "end_extra_data outside extra mode, switch_to rows, validate_extra_data rows incl. a complete scan of the reserved-id table); "
        "(3) every failing path of the compressor switch leaves the writer closed; (4) per-entry CRC/size accounting and reset. The "
        "content-level clause ('exactly the entries/bytes') is not decided beyond (3) and (4).")
    void = set()
    refuse_before_close_rules(facts, rep)
    if not ts_rules(facts, rep):
        void.add("C12-TS")
    failclosed_rules(facts, rep)
    misuse_rules(facts, rep)
    patch_rules(facts, rep, rule="C12-PATCH")
    from rules.shared_typestate import typestate_rules
    typestate_rules(facts, rep)        # E6: every call sequence over the writer alphabet, on the abstract state machine read off the MIR
    rep.floor("C12-TSX", 30)
    if ctx.tier == "thorough" and getattr(ctx, "name", None) is None:
        tsx_positive_control(ctx, rep)
    from rules.C02 import limit_rules
    limit_rules(facts, rep)            # reported as C12/C02-LIMIT: "every call that is valid in its state succeeds" -- the longest valid name/comment/extra field is accepted
    from rules.C13 import raw_rules as _raw13
    _raw13(facts, rep)                 # reported as C12/C13-RAW: the raw flag is consumed by the entry it was set for
    panic_rule(ctx, rep, "C12-PANIC", facts, is_write_root, void_rules=void)
    rep.floor("C12-PANIC", 60)
    rep.assume("sequences using the experimental encryption option beyond start_file+write are outside the property's quantifier (DESIGN.md O7)")
    from rules.shared_refusals import write_refusals
    write_refusals(ctx, facts, rep)    # C12-REFUSALS: misuse is refused where it was; legal sequences are refused nowhere new
    rep.floor("C12-REFUSALS", 14)
    if ctx.tier == "thorough":
        from rules.shared_panic import thorough_configs
        thorough_configs(ctx, rep, "C12-PANIC", is_write_root, void)
