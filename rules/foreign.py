"""Cross-property wiring, in one place: which rules *owned by another property's module* are also necessary conditions of a property's
statement and are therefore evaluated by its check (reported as `Cxx/Cyy-RULE`).  Each line carries the clause of the property's
statement the rule stands for.  (Wiring added earlier lives in the modules' run() functions; this table is the systematic sweep done
after round 4, when 10 of 40 fresh changes were again caught only by a neighbour's check.)"""
import importlib


def _call(mod, fn, style, **kw):
    def run(ctx, facts, rep):
        f = getattr(importlib.import_module(mod), fn)
        return f(ctx, facts, rep, **kw) if style == "ctx" else f(facts, rep, **kw)
    return run


TS = ("rules.shared_typestate", "typestate_rules", "facts")
OPENERS = ("rules.shared_options", "opener_rules", "facts")
ENTRYF = ("rules.shared_options", "entry_fields_rules", "facts")
RREF = ("rules.shared_refusals", "read_refusals", "ctx")
WREF = ("rules.shared_refusals", "write_refusals", "ctx")
XWALK = ("rules.shared_extrawalk", "extrawalk_rules", "facts")
LENF = ("rules.shared_lenfield", "lenfield_rules", "ctx")

FOREIGN = {
    "C01": [  # write -> read round trip
        (("rules.C13", "raw_rules", "facts"), "the archive comment (and the entry list) survive: a writer opened on an existing archive carries them over unless replaced"),
        (("rules.C02", "sib_rules", "ctx"), "a large_file entry started through the extra-data API reads back: the re-patched local extra length counts the ZIP64 placeholder"),
        (LENF, "entries behind a ZIP64-sized one are read back: the central header announces exactly the extra bytes it emits"),
        (("rules.C12", "misuse_rules", "facts"), "every opener accepts every documented option combination: levels are validated in one place, for the method actually used"),
        (WREF, "the writer turns away no call sequence it used to accept"),
        (RREF, "... and the reader no archive it used to accept: what was written is read back"),
        (("rules.C02", "flag_rules", "ctx"), "names are flagged UTF-8 exactly when non-ASCII, so they read back as the same string"),
        (("rules.C19", "flag_decode_rules", "facts"), "the reader picks the name decoder by that flag"),
        (TS, "every entry opened through the writer starts with fresh accounting and is closed, for every call sequence"),
        (("rules.C02", "seekabs_rules", "facts"), "entry data lies where the headers say"),
        (("rules.shared_zip64", "pair_rules", "ctx"), "sizes of large_file entries round-trip through the ZIP64 slots"),
        (("rules.C18", "bits_rules", "facts"), "timestamps pack and unpack to the same fields"),
        (("rules.C03", "central_rules", "ctx"), "the reader finds the entry's data from the local header's own lengths"),
        (("rules.C03", "fieldwriters_rules", "facts"), "the reader reports the recorded metadata"),
        (("rules.C04", "table_rules", "facts"), "a correct entry is read to EOF without a checksum error, a wrong one never"),
    ],
    "C02": [
        (("rules.C12", "failclosed_rules", "facts"), "a refused compression level leaves the writer closed: the half-started entry (header already written and recorded) can never be part of a finished archive"),
        (("rules.shared_count", "exact_rule", "facts"), "copied and serialised bytes are moved with exact-length primitives (a single read()/write() leaves a zero-filled or missing tail under headers that announce the full size)"),
        (("rules.C15", "write_rules", "ctx"), "an entry flagged encrypted carries the 12-byte encryption header, whichever opener started it"),
        (("rules.C13", "sameparser_rules", "facts"), "an appended archive's old entries keep offsets relative to the stream: new_append applies the archive offset like the reader"),
        (ENTRYF, "the headers describe the entry that was asked for: method, flags, timestamp, large-file form come from the options"),
        (TS, "stored CRC/sizes describe the entry's own bytes: fresh accounting per entry over all call sequences"),
        (("rules.shared_zip64", "guard_rules", "ctx"), "a non-large entry that outgrows 4 GiB never yields a finished archive"),
        (("rules.C18", "bits_rules", "facts"), "the DOS date/time words are the packed fields"),
    ],
    "C03": [
        (("rules.C15", "open_rules", "facts"), "entries with a method this build cannot decode are refused when opened (never handed out to panic on the first read)"),
        (("rules.C10", "accessor_sibling_rules", "facts"), "is_dir() / is_file() answer by the last character, DOS separator included"),
        (("rules.C04", "table_rules", "facts"), "reading an entry returns its bytes or an error (CRC table)"),
        (("rules.C04", "wrap_rules", "facts"), "every decoding reader is wrapped in the CRC check"),
        (("rules.C18", "bits_rules", "facts"), "timestamps are unpacked per the DOS layout"),
        (("rules.C19", "flag_decode_rules", "facts"), "names/comments are decoded by the flagged encoding"),
    ],
    "C04": [
        (("rules.shared_count", "count_rule", "facts"), "an interrupted or failed read leaves the adapters' accounting intact: a retried read cannot find \"no data left\" and skip the MAC / CRC comparison"),
        (RREF, "a damaged/short entry that was refused is still refused (no saturating/defaulting replaces the refusal)"),
        (("rules.C16", "open_rules", "facts"), "AES entries: the data length is the compressed size minus the overhead, checked"),
        (("rules.C03", "flagbits_rules", "facts"), "using_data_descriptor is bit 3 (streamed entries with a descriptor are refused, never mis-sized)"),
        (("rules.C10", "stack_rules", "facts"), "the streaming reader builds the same CRC-checked decoder stack"),
    ],
    "C07": [
        (("rules.C03", "central_rules", "ctx"), "entries of an archive with prepended data are located (the archive offset is applied once)"),
        (("rules.C01", "codec_rules", "ctx"), "every central record is parsed at its place (field order of APPNOTE 4.3.12), so every entry is extracted"),
        (("rules.C19", "flag_decode_rules", "facts"), "files are created under the name the entry has: the streaming extractor decodes names by the flagged encoding like the central directory"),
        (("rules.C01", "mode_rules", "ctx"), "the mode an extractor applies is the recorded one: unix_mode() of a Unix-made entry is attrs >> 16, untouched by DOS attribute bits"),
        (("rules.C03", "acc_rules", "facts"), "unix_mode() reports the recorded mode"),
        (("rules.C03", "dosmode_rules", "facts"), "permission bits derived from DOS attributes"),
        (("rules.C19", "table_rules", "facts"), "extraction succeeds for every safe name: the CP437 decoder is total (its ASCII fast path takes bytes below 0x80 only, so no name makes it panic)"),
    ],
    "C08": [
        (("rules.C02", "offs_rules", "ctx"), "a large_file entry's data start and accounting start lie behind its ZIP64 placeholder (positions observed on the stream)"),
        (LENF, "an entry that needs a central ZIP64 record is followed by records that are still found: the announced extra length covers the record"),
        (("rules.C13", "sameparser_rules", "facts"), "an archive with more than 65535 entries is re-read in full when opened for append: the count comes from the ZIP64-aware directory parser"),
        (XWALK, "the ZIP64 record is found wherever it stands among the extra records (every layout the specification allows)"),
        (("rules.C01", "patch_rules", "facts"), "the 4 GiB refusal of a non-large entry keeps failing on every later close (the size recomputation is checked, not saturated)"),
        (("rules.C03", "sentinel_rules", "facts"), "foreign ZIP64 archives that mask the classic disk numbers are accepted"),
        (("rules.C10", "drain_rules", "facts"), "a streamed ZIP64 entry is bounded by its 64-bit size: the limit is taken after the local ZIP64 record was decoded"),
        (("rules.C01", "patchoff_rules", "ctx"), "the local ZIP64 record is written and back-patched in the order (uncompressed, compressed) at the offsets of the table"),
        (OPENERS, "the large_file request reaches the entry through every opener"),
        (ENTRYF, "... and is recorded as given"),
        (("rules.C02", "narrow_rules", "ctx"), "no value is truncated into a 16/32-bit field"),
    ],
    "C10": [
        (("rules.C13", "sameparser_rules", "facts"), "an appended archive is still a front-to-back stream: new entries overwrite the old central directory"),
        (("rules.C03", "acc_rules", "facts"), "the stream metadata accessors report the same fields as the seekable ones (name_raw is the stored bytes)"),
        (("rules.C19", "table_rules", "facts"), "both readers decode unflagged names through the one CP437 table, for every byte"),
        (XWALK, "both readers walk the local/central extra field on record boundaries"),
        (("rules.C03", "flagbits_rules", "facts"), "both parsers read the same flag bits"),
        (RREF, "both readers refuse the same inputs: no refusal is added to one of them"),
        (("rules.C03", "fieldwriters_rules", "facts"), "both readers report what the headers hold"),
        (("rules.C04", "table_rules", "facts"), "contents are CRC-checked the same way"),
    ],
    "C13": [
        (("rules.C12", "refuse_before_close_rules", "facts"), "a call that is refused for its arguments (over-long name or comment) does not consume the raw flag of the entry before it: a copied / re-read entry is never re-patched"),
        (("rules.C03", "sentinel_rules", "facts"), "a ZIP64 base archive whose classic record holds real values can be opened for append"),
        (("rules.C02", "limit_rules", "facts"), "a base archive with a maximal (65535-byte) comment can be re-finished"),
        (LENF, "re-written central records of old entries announce exactly the extra bytes emitted"),
        (("rules.shared_count", "count_rule", "facts"), "new entries written through a short-writing stream are accounted by the accepted bytes"),
        (XWALK, "the old entries' ZIP64 / AE-x records are re-read on record boundaries when an archive is opened for append"),
        (("rules.C19", "flag_decode_rules", "facts"), "old names are re-read by the flagged encoding only (an append does not rename entries)"),
        (("rules.C03", "central_rules", "ctx"), "old entries are located through their own local headers (names re-encoded on re-emission do not shift them)"),
        (("rules.C01", "mode_rules", "ctx"), "re-emitted entries keep their external attributes: the shift is applied where the attribute word is built, not where it is written"),
        (WREF, "appending entries is refused only where it was"),
        (RREF, "an existing archive that opens for reading opens for append"),
        (ENTRYF, "the appended entries are recorded as asked for"),
        (("rules.C03", "offset_rules", "facts"), "archives with prepended data / ZIP64 records are located as the reader locates them"),
        (("rules.C03", "search_rules", "ctx"), "same end-record search"),
        (("rules.shared_zip64", "eocd_rules", "ctx"), "more than 65535 entries after an append get ZIP64 end records"),
        (TS, "the raw flag set by new_append protects only the old entries, for every call sequence"),
        (("rules.C03", "fieldwriters_rules", "facts"), "what is re-emitted is what was recorded"),
        (("rules.C18", "bits_rules", "facts"), "re-emitted timestamps: pack(unpack(w)) == w"),
        (("rules.C02", "flag_rules", "ctx"), "re-emitted names keep the flag that matches their bytes"),
    ],
    "C14": [
        (("rules.C04", "wrap_rules", "facts"), "the raw accessor hands out the stored bytes without running them through the checksum or a decoder"),
        (("rules.C12", "refuse_before_close_rules", "facts"), "a call that is refused for its arguments (over-long name or comment) does not consume the raw flag of the entry before it: a copied / re-read entry is never re-patched"),
        (("rules.C15", "open_rules", "facts"), "opening an unencrypted source with a (superfluous) password does not consume its first 12 bytes"),
        (("rules.C01", "patchoff_rules", "ctx"), "the local ZIP64 record of a copied large entry carries the sizes (written, or back-patched at the offset the writer computed)"),
        (("rules.C03", "central_rules", "ctx"), "the raw window handed to the copy is the entry's whole compressed stream (central size), for empty entries too"),
        (WREF, "any entry that can be opened raw can be copied: the copy path adds no refusal (method, timestamp, size ...)"),
        (ENTRYF, "the copy's record holds the options raw_copy derived from the source (start_entry is shared)"),
        (("rules.C03", "fieldwriters_rules", "facts"), "the source's accessors report the recorded values"),
        (("rules.C18", "bits_rules", "facts"), "the copied timestamp re-packs to the same words"),
    ],
    "C15": [
        (("rules.C03", "central_rules", "ctx"), "an encrypted entry is located from its local header on every open: opening it twice (or from a clone) finds the same 12-byte header"),
        (("rules.C04", "args_rules", "facts"), "the CRC exemption is the AE-2 predicate only: a wrong password that passes the check byte still fails the CRC"),
        (("rules.C03", "flagbits_rules", "facts"), "the encrypted flag and the data-descriptor flag (which selects the ZipCrypto check byte) are bits 0 and 3"),
        (TS, "an entry opened with keys gets the encrypting sink, and only that entry, for every call sequence"),
        (RREF, "the right password is refused nowhere new (entry length, method, flags ...)"),
        (OPENERS, "an entry opened with encryption keys is written encrypted, whichever opener is used"),
        (ENTRYF, "the encrypted flag is set exactly when keys were given"),
        (("rules.C01", "patch_rules", "facts"), "an encrypted entry reads back with the right password: its recorded compressed size covers the 12-byte encryption header, i.e. it is the distance the sink moved and not a count of plaintext bytes, for every method"),
    ],
    "C17": [
        (("rules.C01", "patch_rules", "facts"), "an entry with extra data or padding round-trips: its recorded compressed size is what lies between the (advanced) data start and the end of its data"),
        (("rules.C20", "store_rules", "facts"), "data_start() as reported by the reader is what find_content computed from the LOCAL header (not a value precomputed from the central record)"),
        (("rules.C03", "central_rules", "ctx"), "the reader locates the (aligned) data through the local header's own lengths"),
        (("rules.C02", "offs_rules", "ctx"), "the data start recorded at open is the observed stream position (not recomputed from lengths)"),
        (("rules.shared_count", "exact_rule", "facts"), "central extra data is emitted with exact-length writes"),
        (TS, "bytes written in extra-data mode never reach the entry's CRC/size accounting, for every call sequence"),
        (("rules.shared_count", "count_rule", "facts"), "the writer accounts exactly the file-data bytes the sink accepted"),
        (WREF, "aligned / extra-data entries are refused exactly where the reviewed validation refuses them"),
        (OPENERS, "start_file_aligned / start_file_with_extra_data open the entry that was asked for"),
        (XWALK, "an entry carrying caller-supplied extra data (any record the validator admits, up to 65531 payload bytes) is still opened and read back: the reader steps over each unknown record by its full 16-bit length"),
    ],
    "C18": [
        (("rules.C15", "write_rules", "ctx"), "the encryption option changes only the keys (builder methods keep the caller's timestamp)"),
        (("rules.C01", "patchoff_rules", "ctx"), "the local header's time/date words are written once, up front (raw copies are never patched)"),
        (OPENERS, "the caller's timestamp reaches the entry through every opener"),
        (ENTRYF, "... and is recorded as given, unconditionally"),
        (("rules.C13", "raw_rules", "facts"), "append re-writes parsed entries untouched"),
    ],
    "C16": [
        (("rules.C04", "wrap_rules", "facts"), "the decoder behind the AES reader consumes its whole input (plain constructor): every ciphertext byte is pulled through the MAC"),
        (("rules.C01", "method_rules", "ctx"), "the decoder behind the AES reader is the plain constructor: nothing changes how much ciphertext is pulled before end-of-data is reported"),
        (XWALK, "the AE-x record is found wherever it stands among the extra records"),
        (("rules.shared_zip64", "pair_rules", "ctx"), "AES entries with ZIP64 sizes: the two 64-bit values are consumed in APPNOTE order"),
        (("rules.C03", "flagbits_rules", "facts"), "the encrypted flag is bit 0"),
        (("rules.C15", "open_rules", "facts"), "no password => the password-required error for every encrypted entry, AES included"),
        (RREF, "the right password is refused nowhere new; tampering is refused everywhere it was"),
    ],
    "C09": [
        (("rules.C04", "wrap_rules", "facts"), "a zero-length read does not change which reader answers the next one"),
        (("rules.C03", "central_rules", "ctx"), "the local header is located by absolute seeks and exact reads"),
        (("rules.C04", "table_rules", "facts"), "a short read is not the end of data: the checksum verdict is tied to Ok(0) of the inner reader only"),
    ],
    "C12": [
        (("rules.C02", "sib_rules", "ctx"), "the extra-data API and large_file combine: the re-patched local extra length counts the ZIP64 placeholder"),
        (("rules.shared_count", "exact_rule", "facts"), "every opener hands its content to the sink with exact-length writes"),
        (("rules.C02", "seekabs_rules", "facts"), "extra-data entries started on a stream that has bytes behind the write position (append) land where the headers say"),
        (("rules.shared_count", "count_rule", "facts"), "a partially accepted write is accounted as exactly the accepted bytes: retrying the rest is legal use"),
    ],
    "C19": [
        (("rules.C03", "fieldwriters_rules", "facts"), "nothing replaces the decoded name afterwards (no extra field overrides it)"),
        (("rules.C01", "mode_rules", "ctx"), "a directory name given with a trailing separator is stored as given (both separators are honoured)"),
        (("rules.C14", "name_rules", "facts"), "a raw copy keeps the decoded name (not a re-decoding of the raw bytes under another encoding)"),
        (("rules.C01", "patchoff_rules", "ctx"), "the stored name bytes are not overwritten: the ZIP64 back-patch lands behind the name's BYTE length"),
        (("rules.shared_count", "exact_rule", "facts"), "name and comment bytes are read with exact-length primitives (a bare read() truncates them on a short read)"),
    ],
    "C11": [
        (("rules.C10", "seq_rules", "facts"), "a fault while skipping a streamed entry surfaces at the next call: only the central directory signature ends the entry sequence"),
        (("rules.shared_refusals", "read_refusals", "ctx"), "no refusal of the reader is dropped (an unknown signature is an error, not the end of the archive)"),
        (("rules.C03", "central_rules", "ctx"), "a read failure while locating an entry stays an I/O error (it is not reclassified as a malformed archive that a caller may skip)"),
        (("rules.C15", "write_rules", "ctx"), "a failed flush of an encrypted entry leaves no half-finished encrypting writer behind (finish consumes it)"),
    ],
    "C05": [
        (("rules.C10", "drain_rules", "facts"), "the streaming reader chooses the decoder by the method the AE-x record put in place (the header value 99 reaches make_reader's fall-through panic)"),
        (("rules.C02", "narrow_rules", "ctx"), "records parsed from untrusted bytes and re-emitted by an appending writer cannot overflow the serialisers' 16-bit length arithmetic"),
    ],
    "C20": [
        (("rules.C07", "who_rules", "facts"), "extraction creates nothing under a name shared between handles (no temporary files, no renames)"),
        (("rules.C03", "central_rules", "ctx"), "opening an entry records its data start itself, on every path: what a handle reports never depends on what a clone did before"),
    ],
}


def run_foreign(prop, ctx, rep):
    facts = ctx.facts
    done = rep.__dict__.setdefault("_foreign_done", set())
    for (mod, fn, style), why in FOREIGN.get(prop, ()):
        key = (mod, fn)
        if key in done:
            continue
        done.add(key)
        kw = {}
        if fn == "typestate_rules":
            kw["rule"] = "%s-TSX" % prop
            if any(i["rule"].endswith("-TSX") for i in rep.instances):
                continue
        if fn == "pair_rules":
            kw["rule"] = "%s-Z64" % prop if not any(i["rule"] == rep._rn("%s-Z64" % prop) for i in rep.instances) else "%s-Z64P" % prop
        _call(mod, fn, style, **kw)(ctx, facts, rep)
    return True
