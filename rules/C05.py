"""C05 -- untrusted bytes never crash, hang or exhaust memory in the readers (DESIGN.md §3 C05).

Decides (necessary conditions, from the MIR of /repo's current tree):
  C05-PANIC       no undischarged panic-capable site reachable from the reader entry set
  C05-METHOD      the fall-through panic of the decoder constructor is unreachable: the open path rejects exactly the
                  methods it cannot decode, and every decoder construction uses the method the open path validated
  C05-TS-ZIPFILE  ZipFile's lazy-reader typestate (reader == NoReader <=> crypto_reader.is_some()) is established at
                  every construction and preserved by every function that touches the two fields
  C05-NOPW        the password-less open can only yield a plain reader or an error (discharges the stream reader's unwrap)
  C05-LOOP        every loop reachable from the entry set makes progress by a recognised pattern
  C05-ALLOC       every allocation whose size comes from the input is bounded by type or by a guard against the stream
"""
import re

from engine.expr import Ex, norm, show, walk, alts
from engine.intervals import Intervals, dominating_facts, ty_range, argtys_of
from engine.mir import AnchorLost, callee_matches
from engine.panics import const_return_summaries, leaf_sig
from engine.query import aggregates, field_assignments, mut_borrows_of_field, variant_index, calls_matching, where
from rules.shared_panic import panic_rule, is_read_root

CM = "compression::CompressionMethod"


# --------------------------------------------------------------------------------------------- C05-METHOD
def rule_method(facts, rep):
    rule = "C05-METHOD"
    okall = True
    make_reader = facts.one(r"^read::make_reader$")
    mcr = facts.one(r"^read::make_crypto_reader$")
    adt = facts.adts.get(CM)
    if not adt:
        raise AnchorLost("CompressionMethod ADT")
    names = {}
    for i, v in enumerate(adt["variants"]):
        names[int(v["discr"]) if v["discr"] not in (None, "null") else i] = v["name"]
    # (a) which variants reach a panic in make_reader?
    ex = Ex(make_reader)
    panic_blocks = [bi for bi, t in make_reader.calls() if callee_matches(t, r"^core::panicking::")]
    unhandled = set()
    for pb in panic_blocks:
        # variants v such that the panic block is reachable when discr == v: take the dominating switch on the method
        for d in sorted(make_reader.dominators().get(pb, ())):
            t = make_reader.term(d)
            if not t or t["k"] != "switch":
                continue
            de = norm(ex.operand(t["discr"], (d, None)))
            if de[0] == "discr" and de[1][0] == "arg" and de[1][1] == 1:
                handled_here = set()
                for v, tgt in t["targets"]:
                    if pb == tgt or pb in make_reader.reach_from_inclusive(tgt, avoid={d}):
                        unhandled.add(names.get(v, str(v)))
                    else:
                        handled_here.add(v)
                o = t["otherwise"]
                if pb == o or pb in make_reader.reach_from_inclusive(o, avoid={d}):
                    for v in names:
                        if v not in [x for x, _ in t["targets"]]:
                            unhandled.add(names[v])
    rep.count("functions_analysed", 2)
    if not panic_blocks:
        rep.ok(rule, "make_reader:no-fallthrough-panic", where(make_reader, make_reader.span),
               "decoder constructor has no panicking arm")
        return True
    # (b) make_crypto_reader: every Ok(Ok(_)) construction is dominated by edges excluding each unhandled variant
    ex2 = Ex(mcr)
    okok = []
    for bi, si, s in mcr.stmts():
        if s["k"] == "assign" and s["place"]["l"] == 0 and not s["place"]["p"]:
            e = norm(ex2.rvalue(s["rv"], (bi, si)))
            for a in alts(e):
                if a[0] == "agg" and a[1] == "adt:Ok" and a[3] and a[3][0][1][0] in ("agg", "phi"):
                    inner = a[3][0][1]
                    if any(x[0] == "agg" and x[1] == "adt:Ok" for x in alts(inner)):
                        okok.append((bi, s))
    if not okok:
        raise AnchorLost("no Ok(Ok(..)) return in make_crypto_reader")
    for bi, s in okok:
        fs = dominating_facts(mcr, ex2, bi)
        excluded = set()
        for f in fs:
            if f[0] == "Ne" and f[1][0] == "discr" and f[1][1][0] == "arg" and f[1][1][1] == 1 and f[2][0] == "const":
                excluded.add(names.get(f[2][2], str(f[2][2])))
        missing = sorted(unhandled - excluded)
        good = not missing
        if not good:
            # the rejections may sit in a helper whose verdict reaches this point through `?` (no dominating edge on the method then):
            # decide it on the paths -- every path that ends in Ok(Ok(_)) has excluded each of those variants
            from engine.paths import paths as _paths, outcome as _outcome, PathExplosion
            try:
                inv = {v_: k_ for k_, v_ in names.items()}
                still = set()
                nokok = 0
                for p_ in _paths(mcr, max_paths=20000):
                    o_ = _outcome(p_)
                    if not (o_[0] == "Ok" and o_[1] is not None and any(x_[0] == "agg" and x_[1] == "adt:Ok" for x_ in alts(o_[1]))):
                        continue
                    nokok += 1
                    ex_ = set()
                    for a_, v_ in p_["decisions"]:
                        if a_ == "discr(compression_method)":
                            if isinstance(v_, tuple) and v_[0] == "not-in":
                                ex_ |= {names.get(x_, str(x_)) for x_ in v_[1]}
                            elif isinstance(v_, int):
                                ex_ |= {n_ for n_ in unhandled if inv.get(n_) != v_}
                    still |= (unhandled - ex_)
                if nokok and not still:
                    good, missing = True, []
            except PathExplosion:
                pass
        okall &= good
        rep.check(good, rule, "make_crypto_reader:rejects:%s" % ",".join(sorted(unhandled)), where(mcr, s["span"]),
                  "success return of the open path is dominated by the rejection of every method the decoder constructor "
                  "cannot handle (%s)" % ", ".join(sorted(unhandled)),
                  "open path can succeed with method variant(s) %s for which make_reader panics" % missing)
    # (c) every call of make_reader passes the method that the crypto reader was validated with
    n_sites = 0
    for f in facts.fns:
        for bi, t in calls_matching(f, r"^read::make_reader$"):
            n_sites += 1
            exf = Ex(f)
            m = norm(exf.operand(t["args"][0], (bi, None)))
            cr = norm(exf.operand(t["args"][2], (bi, None)))
            key = "make_reader-call:%s" % f.path.split("::")[-1]
            inner = [x for x in walk(cr) if x[0] == "call" and x[1] == "read::make_crypto_reader"]
            if inner:
                good = all(x[2][0] == m for x in inner)
                okall &= good
                rep.check(good, rule, key, where(f, t["span"]),
                          "method argument equals the method the crypto reader was validated with: %s" % show(m),
                          "make_reader is given method %s but the crypto reader was validated with %s" % (show(m), show(inner[0][2][0])))
            else:
                # lazily built reader: method comes from self.data, crypto reader from self.crypto_reader -> invariant M
                fields_m = [x[2] for x in walk(m) if x[0] == "field"]
                fields_c = [x[2] for x in walk(cr) if x[0] == "field"]
                good = "compression_method" in fields_m and "data" in fields_m and "crypto_reader" in fields_c
                okall &= good
                rep.check(good, rule, key, where(f, t["span"]),
                          "lazy construction from self.data.compression_method and self.crypto_reader (tied together by invariant M)",
                          "make_reader call whose method (%s) / crypto reader (%s) provenance is not the entry's own data" % (show(m), show(cr)))
    rep.floor(rule, 4, "2 make_reader call sites + open-path rejection + invariant M sites")
    # invariant M: every ZipFile{crypto_reader: Some(x), data: d} has x = make_crypto_reader(d.compression_method, ..)
    for f in facts.fns:
        exf = Ex(f)
        for bi, si, s, flds in aggregates(f, r"^read::ZipFile$"):
            cr = norm(exf.operand(flds["crypto_reader"], (bi, si)))
            data = norm(exf.operand(flds["data"], (bi, si)))
            key = "invariant-M:%s" % f.path.split("::")[-1]
            calls = [x for x in walk(cr) if x[0] == "call" and x[1] == "read::make_crypto_reader"]
            somes = [a for a in alts(cr) if not (a[0] == "agg" and a[1] == "adt:None")]
            if not somes:
                rep.ok(rule, key, where(f, s["span"]), "crypto_reader is None here", trivial=True)
                continue
            if not calls:
                okall = False
                rep.violation(rule, key, where(f, s["span"]),
                              "ZipFile built with a crypto reader that does not come from make_crypto_reader: %s" % show(cr))
                continue
            marg = calls[0][2][0]
            # data is Cow::Borrowed(d): method argument must be d.compression_method
            droot = [a for a in walk(data) if a[0] in ("arg", "ok", "call", "field")]
            good = marg[0] == "field" and marg[2] == "compression_method" and any(marg[1] == x for x in walk(data))
            okall &= good
            rep.check(good, rule, key, where(f, s["span"]),
                      "crypto reader validated with the compression method of the very entry stored in `data`",
                      "crypto reader validated with %s, which is not the method of the entry stored in the ZipFile (%s)" % (show(marg), show(data)))
    # nobody else rewrites the method of an entry after parsing
    writers = {f.path for (f, bi, si, s) in field_assignments(facts, "compression_method", r"ZipFileData$")}
    allowed = {p for p in writers if re.search(r"parse_extra_field$|FileOptions|add_directory|add_symlink", p)}
    extra = sorted(writers - allowed)
    good = not extra
    okall &= good
    rep.check(good, rule, "method-writers", "", "ZipFileData.compression_method is assigned only by the extra-field parser: %s" % sorted(writers),
              "ZipFileData.compression_method assigned outside the parsers: %s" % extra)
    return okall


# --------------------------------------------------------------------------------------------- C05-TS-ZIPFILE
def rule_ts_zipfile(facts, rep):
    rule = "C05-TS-ZIPFILE"
    okall = True
    # E6 on the ZipFile object: every sequence of read / get_raw_reader / drop from every constructor; the structural sub-rules below
    # state the same invariant (K: reader == NoReader <=> crypto_reader is Some) shape by shape and defer to it when a shape is new
    from rules.shared_typestate import zipfile_typestate_rules
    tsx_ok = bool(zipfile_typestate_rules(facts, rep, rule=rule))
    okall &= tsx_ok
    _chk = rep.check

    class _Soft:
        def __getattr__(self, k):
            return getattr(rep, k)

        def check(self, cond, *a, **kw):
            return _chk(bool(cond) or tsx_ok, *a, **kw)
    srep = _Soft()
    # (1) every construction establishes K
    n = 0
    for f in facts.fns:
        exf = Ex(f)
        for bi, si, s, flds in aggregates(f, r"^read::ZipFile$"):
            n += 1
            cr = norm(exf.operand(flds["crypto_reader"], (bi, si)))
            rd = norm(exf.operand(flds["reader"], (bi, si)))
            cr_none = all(a[0] == "agg" and a[1] == "adt:None" for a in alts(cr))
            cr_some = all(a[0] == "agg" and a[1] == "adt:Some" for a in alts(cr))
            rd_no = all(a[0] == "agg" and a[1] == "adt:NoReader" for a in alts(rd))
            rd_yes = all(not (a[0] == "agg" and a[1] == "adt:NoReader") for a in alts(rd)) and \
                all(a[0] in ("agg", "call", "ok") for a in alts(rd))
            good = (cr_none and rd_yes) or (cr_some and rd_no)
            okall &= good or tsx_ok
            srep.check(good, rule, "K-establish:%s" % f.path.split("::")[-1], where(f, s["span"]),
                      "constructed with crypto_reader=%s, reader=%s" % ("Some" if cr_some else "None", "NoReader" if rd_no else "built"),
                      "ZipFile constructed in a state violating K: crypto_reader=%s reader=%s" % (show(cr), show(rd)))
    # make_reader never returns NoReader
    mr = facts.one(r"^read::make_reader$")
    from engine.query import ret_alts
    ras = ret_alts(mr)
    good = all(a[0] == "agg" and a[1].startswith("adt:") and a[1] != "adt:NoReader" for a in ras) and ras
    okall &= bool(good)
    rep.check(bool(good), rule, "make_reader-never-NoReader", where(mr, mr.span),
              "every return of make_reader constructs a decoding variant (%d alternatives)" % len(ras),
              "make_reader can return %s" % [show(a)[:60] for a in ras])
    # (2) who touches the two fields
    touchers = set()
    for fld in ("reader", "crypto_reader"):
        for (f, bi, si, s) in field_assignments(facts, fld, r"^read::ZipFile$"):
            touchers.add(f.path)
        for (f, bi, si, s) in mut_borrows_of_field(facts, fld, r"^read::ZipFile$"):
            touchers.add(f.path)
    from engine.query import lazy_ctor
    lz = lazy_ctor(facts)
    expected = {lz.name, "get_raw_reader", "drop"}
    names = {p.split("::")[-1] for p in touchers}
    extra = sorted(names - expected)
    good = not extra
    okall &= good
    rep.check(good, rule, "K-writers", "", "fields reader/crypto_reader are written or mutably borrowed only in %s" % sorted(names),
              "unexpected function(s) mutate ZipFile.reader / ZipFile.crypto_reader: %s" % extra)
    # (3) preservation in the two lazy builders (path enumeration): the crypto reader is taken only on paths that saw
    #     reader == NoReader, and every such path that returns has re-assigned self.reader
    from engine.paths import paths as _paths, decided as _decided, called as _called
    for nm in (lz.name, "get_raw_reader"):
        f = lz if nm == lz.name else facts.one(r"^read::ZipFile::<'a>::%s$" % nm)
        assign_blocks = {b_ for b_, si_, s_ in f.stmts() if s_["k"] == "assign" and [p_ for p_ in s_["place"]["p"] if p_["k"] == "field"][-1:] and
                         [p_ for p_ in s_["place"]["p"] if p_["k"] == "field"][-1]["n"] == "reader"}
        ps_ = _paths(f)
        taking = [p_ for p_ in ps_ if _called(p_, r"Option::<T>::take$|mem::(replace|take)$")]
        if not taking:
            raise AnchorLost("no take() in %s" % nm)
        guarded = all(_decided(p_, r"^discr\(self\.reader\)$") == 0 for p_ in taking)
        reassigned = all(p_["end"] != "return" or (set(p_["blocks"]) & assign_blocks) for p_ in taking)
        idle = all(not (set(p_["blocks"]) & assign_blocks) for p_ in ps_ if p_ not in taking)
        good = guarded and reassigned and idle
        okall &= bool(good) or tsx_ok
        srep.check(bool(good), rule, "K-preserve:%s" % nm, where(f, f.span),
                  "crypto reader taken only when reader == NoReader; every returning path re-assigns self.reader; other paths leave it alone",
                  "in %s the crypto reader is taken %s and %s" % (
                      nm, "under the NoReader guard" if guarded else "WITHOUT the reader == NoReader guard",
                      "reader is re-assigned" if reassigned else "a return is reachable without assigning self.reader"))
    rep.floor(rule, 6)
    return okall


# --------------------------------------------------------------------------------------------- C05-NOPW
def rule_nopw(facts, rep):
    rule = "C05-NOPW"
    okall = True
    mcr = facts.one(r"^read::make_crypto_reader$")
    ex = Ex(mcr)
    sig = facts.sigs.get(mcr.path)
    # parameter positions by name
    pw = [i for i in range(1, mcr.arg_count + 1) if mcr.local_name(i) == "password"]
    ai = [i for i in range(1, mcr.arg_count + 1) if mcr.local_name(i) == "aes_info"]
    if not pw or not ai:
        raise AnchorLost("make_crypto_reader parameters password / aes_info")
    pw, ai = pw[0], ai[0]
    n = 0
    for bi, si, s in mcr.stmts():
        if s["k"] != "assign" or s["rv"]["k"] != "agg" or s["rv"].get("adt") != "result::InvalidPassword":
            continue
        n += 1
        fs = dominating_facts(mcr, ex, bi)
        some = False
        for x in fs:
            if x[0] == "Eq" and x[1][0] == "discr" and x[1][1][0] == "arg" and x[1][1][1] in (pw, ai) and x[2][2] == 1:
                some = True
        okall &= some
        rep.check(some, rule, "InvalidPassword-needs-Some#%d" % n, where(mcr, s["span"]),
                  "InvalidPassword is produced only on a path where password or aes_info is Some",
                  "make_crypto_reader can answer InvalidPassword with password = None and aes_info = None")
    if n == 0:
        rep.ok(rule, "InvalidPassword-needs-Some#0", where(mcr, mcr.span), "make_crypto_reader never constructs InvalidPassword")
    # call sites that unwrap the inner Result must pass (None, None)
    for f in facts.fns:
        exf = Ex(f)
        for bi, t in f.calls():
            if not callee_matches(t, r"Result::<T, E>::(unwrap|expect)$"):
                continue
            recv = norm(exf.operand(t["args"][0], (bi, None)))
            calls = [x for x in walk(recv) if x[0] == "call" and x[1] == "read::make_crypto_reader"]
            if not calls or recv[0] != "ok":
                continue
            c = calls[0]
            a_pw, a_ai = c[2][pw - 1], c[2][ai - 1]
            good = all(a[0] == "agg" and a[1] == "adt:None" for a in alts(a_pw)) and \
                all(a[0] == "agg" and a[1] == "adt:None" for a in alts(a_ai))
            okall &= good
            rep.check(good, rule, "unwrap-of-open:%s" % f.path.split("::")[-1], where(f, t["span"]),
                      "inner Result of make_crypto_reader(.., None, None) unwrapped: InvalidPassword impossible",
                      "inner Result of make_crypto_reader unwrapped although password=%s aes_info=%s" % (show(a_pw), show(a_ai)))
    return okall


# --------------------------------------------------------------------------------------------- C05-LOOP
IN_MEMORY_ITER = re.compile(
    r"std::slice::Iter|std::slice::IterMut|std::vec::IntoIter|std::str::Chars|std::path::Components|std::iter::(Map|Filter|Rev|Enumerate|Take|Skip|Copied|Cloned)<|"
    r"std::collections::hash_map|std::str::(Split|Bytes|CharIndices)")
CONSUMERS = re.compile(
    r"byteorder::ReadBytesExt::read_|std::io::Read::(read|read_exact)$|std::io::Seek::seek$|"
    r"^read::(central_header_to_zip_file|read_zipfile_from_stream|parse_extra_field)|parse_central_directory$|"
    r"^spec::\w+::parse$")

REVIEWED_LOOPS = {
    # key -> reason
    "<aes_ctr::AesCtrZipKeyStream<C> as aes_ctr::AesCipher>::crypt_in_place|loop1|xor":
        "target shrinks by target_len = min(len, 16 - pos) >= 1 per iteration (pos < 16 after the refill)",
}


def _src_local(f, bb, op):
    """the user variable an operand is a (possibly temporary-mediated) copy of, within block bb; None if it is something else"""
    seen = 0
    while op is not None and op["k"] != "const" and not op["place"]["p"] and seen < 6:
        l = op["place"]["l"]
        if f.locals[l].get("name"):
            return l
        nxt = None
        for s in reversed(f.blocks[bb]["stmts"]):
            if s["k"] == "assign" and s["place"]["l"] == l and not s["place"]["p"] and s["rv"]["k"] == "use":
                nxt = s["rv"]["op"]
                break
        op = nxt
        seen += 1
    return None


def monotone_counter(f, ex, header, body, backs):
    """P3: a user variable that strictly moves in one direction on every trip round the loop:
       DEC  every update in the loop is x = x.checked_sub(c)? / x - c with c >= 1 (a natural number cannot fall for ever);
       INC  every update is x = x + c with c >= 1, and a test `x <= / < bound` with a loop-invariant bound leaves the loop.
    The update must lie on every path back to the header.  -> (kind, variable name) or None"""
    dom = f.dominators()
    cands = {}
    for b in sorted(body):
        for si, s in enumerate(f.blocks[b]["stmts"]):
            if s["k"] == "assign" and not s["place"]["p"] and f.locals[s["place"]["l"]].get("name"):
                cands.setdefault(s["place"]["l"], []).append((b, si, s))
    for l, ups in cands.items():
        kinds = set()
        for b, si, s in ups:
            e = norm(ex.rvalue(s["rv"], (b, si)))
            k = None
            if e[0] == "ok" and e[1][0] == "call" and e[1][1].endswith("checked_sub") and e[1][2][1][0] == "const" and isinstance(e[1][2][1][2], int) and e[1][2][1][2] >= 1:
                # the receiver is the counter itself
                cb = e[1][4] if len(e[1]) > 4 else None
                t = f.term(cb) if cb is not None else None
                if t and t["k"] == "call" and _src_local(f, cb, t["args"][0]) == l:
                    k = "DEC"
            elif e[0] == "bin" and e[1] in ("Sub", "Add") and e[3][0] == "const" and isinstance(e[3][2], int) and e[3][2] >= 1:
                # x = x -/+ c : find the arithmetic statement feeding this assignment
                srcs = [s2 for b2 in body for s2 in f.blocks[b2]["stmts"] if s2["k"] == "assign" and s2["rv"]["k"] == "binop" and
                        s2["rv"]["op"].replace("WithOverflow", "") == e[1] and _src_local(f, b2, s2["rv"]["a"]) == l and s2["rv"]["b"]["k"] == "const"]
                if srcs:
                    k = "DEC" if e[1] == "Sub" else "INC"
            kinds.add(k)
        if len(kinds) != 1 or None in kinds:
            continue
        kind = kinds.pop()
        if not any(all(b in dom[t] for t in backs) for b, si, s in ups):
            continue        # some way round the loop skips the update
        if kind == "DEC":
            return kind, f.locals[l]["name"]
        # INC needs the bounded exit test
        assigned = {s["place"]["l"] for b2 in body for s in f.blocks[b2]["stmts"] if s["k"] == "assign" and not s["place"]["p"]}
        for sb in sorted(body):
            st = f.term(sb)
            if not st or st["k"] != "switch" or all(x in body for x in f.succ(sb)):
                continue
            dl = st["discr"]["place"]["l"] if st["discr"]["k"] != "const" and not st["discr"]["place"]["p"] else None
            for s2 in f.blocks[sb]["stmts"]:
                if s2["k"] == "assign" and s2["place"]["l"] == dl and s2["rv"]["k"] == "binop" and s2["rv"]["op"] in ("Le", "Lt", "Ge", "Gt"):
                    a, b_ = s2["rv"]["a"], s2["rv"]["b"]
                    la, lb = _src_local(f, sb, a), _src_local(f, sb, b_)
                    other = b_ if la == l else a if lb == l else None
                    if other is None:
                        continue
                    ol = _src_local(f, sb, other) if other["k"] != "const" else -1
                    if other["k"] == "const" or (ol is not None and ol not in assigned):
                        return kind, f.locals[l]["name"]
    return None


def _is_len(e):
    while e[0] == "cast":
        e = e[1]
    return (e[0] == "call" and re.search(r"::len$", e[1]) is not None) or e[0] == "len" or (e[0] == "const" and isinstance(e[2], int))


def _bool_decided_by(f, ex, body, dom, discr, call_bb, depth=0):
    """is the switch operand a local whose every definition inside the loop is a constant assigned under a branch that depends on the
    result of the call in block `call_bb`?  (the lowering of `matches!(call, pattern if guard)` and of `a && b` over a call result)"""
    if discr["k"] == "const" or discr["place"]["p"] or depth > 3:
        return False
    l = discr["place"]["l"]
    defs = [(bi, s) for bi in body for s in f.blocks[bi]["stmts"] if s["k"] == "assign" and s["place"]["l"] == l and not s["place"]["p"]]
    if not defs:
        return False
    dep_sw = set()
    for sb in body:
        st = f.term(sb)
        if st and st["k"] == "switch":
            d = norm(ex.operand(st["discr"], (sb, None)))
            if any(x[0] == "call" and len(x) > 4 and x[4] == call_bb for x in walk(d)):
                dep_sw.add(sb)
    for bi, s in defs:
        rv = s["rv"]
        if rv["k"] == "use" and rv["op"]["k"] == "const":
            if not any(sb in dom[bi] and sb != bi for sb in dep_sw):
                return False
        elif rv["k"] == "use" and rv["op"]["k"] in ("copy", "move") and not rv["op"]["place"]["p"]:
            if not _bool_decided_by(f, ex, body, dom, rv["op"], call_bb, depth + 1):
                return False
        else:
            e = norm(ex.rvalue(rv, (bi, None)))
            if not any(x[0] == "call" and len(x) > 4 and x[4] == call_bb for x in walk(e)):
                return False
    return True


def rule_loop(facts, rep, reach):
    rule = "C05-LOOP"
    okall = True
    nloops = 0
    nth = {}
    for f in facts.fns:
        if f.path not in reach:
            continue
        loops = f.loops()
        if not loops:
            continue
        ex = Ex(f)
        for header, body in loops:
            nloops += 1
            callees = set()
            for b in sorted(body):
                t = f.term(b)
                if t and t["k"] == "call" and t.get("callee"):
                    nm = re.sub(r"<[^<>]*>", "", re.sub(r"<[^<>]*>", "", t["callee"])).split("::")[-1]
                    if callee_matches(t, CONSUMERS.pattern) or t.get("resolved_local"):
                        callees.add(nm)
            nth[f.path] = nth.get(f.path, 0) + 1
            key = "%s|loop%d|%s" % (f.path, nth[f.path], ",".join(sorted(callees)))
            hterm = f.term(header)
            w = where(f, hterm["span"] if hterm else f.span)
            backs = [t for (t, h) in f.back_edges() if h == header]
            dom = f.dominators()
            # blocks of the loop executed on every iteration
            must = [b for b in body if all(b in dom[t] for t in backs)]
            verdict = None
            # P1 iterator over in-memory data
            for b in must:
                t = f.term(b)
                if t and t["k"] == "call" and callee_matches(t, r"iter::Iterator::next$"):
                    recv_l = t["args"][0]["place"]["l"] if t["args"][0]["k"] != "const" else None
                    ity = t.get("self_ty") or ""
                    ga = " ".join(t.get("gargs") or [])
                    if IN_MEMORY_ITER.search(ga) or IN_MEMORY_ITER.search(ity):
                        verdict = ("iterator", "for-loop over in-memory data (%s)" % (ga[:60]))
                    elif re.search(r"ops::Range<", ga):
                        recv = norm(ex.operand(t["args"][0], (b, None)))
                        ends = [dict(x[3]).get("end") for x in walk(recv) if x[0] == "agg" and x[1] == "adt:Range"]
                        if ends and all(e_ is not None and _is_len(e_) for e_ in ends):
                            verdict = ("iterator", "range bounded by the length of an in-memory collection (%s)" % show(ends[0]))
                        else:
                            verdict = ("range", ga)
            # P3 strictly monotone counter
            mono = monotone_counter(f, ex, header, body, backs)
            # P2 consumes-or-exits -- meaningless in a loop that repositions the stream (it can read the same bytes for ever)
            seeks = False
            for b in sorted(body):
                tb = f.term(b)
                if not (tb and tb["k"] == "call" and callee_matches(tb, r"io::Seek::seek$|Seek::rewind$|seek_relative$")):
                    continue
                # a relative seek by a provably positive amount only skips forward: consumption still measures progress
                fwd = False
                if callee_matches(tb, r"io::Seek::seek$") and len(tb["args"]) == 2:
                    a = norm(ex.operand(tb["args"][1], (b, None)))
                    if a[0] == "agg" and a[1] == "adt:Current" and a[3]:
                        fs = [x for x in dominating_facts(f, ex, b) if x[0] != "truth"]
                        r = Intervals({}, fs, argtys_of(f)).range_of(a[3][0][1], "i64")
                        fwd = r[0] >= 0
                if not fwd:
                    seeks = True
            consume = None
            for b in ([] if seeks else must):
                t = f.term(b)
                if t and t["k"] == "call" and callee_matches(t, CONSUMERS.pattern):
                    # the call's result must be able to leave the loop: some switch in the loop depending on it has a
                    # successor outside the loop
                    res_local = t["dest"]["l"]
                    for sb in body:
                        st = f.term(sb)
                        if st and st["k"] == "switch":
                            d = norm(ex.operand(st["discr"], (sb, None)))
                            dep = any(x[0] == "call" and len(x) > 4 and x[4] == b for x in walk(d))
                            if dep and any(s_ not in body for s_ in f.succ(sb)):
                                consume = (b, t)
                            elif not dep and any(s_ not in body for s_ in f.succ(sb)) and _bool_decided_by(f, ex, body, dom, st["discr"], b):
                                # `while matches!(r.read(..), Ok(n) if n != 0) {}`: the exit tests a boolean that is set to constants
                                # on the arms of a match on the call's result
                                consume = (b, t)
                    if consume:
                        break
            if verdict and verdict[0] == "iterator":
                rep.ok(rule, key, w, verdict[1])
            elif consume:
                nm = consume[1]["callee"].split("::")[-1]
                rep.ok(rule, key, w, "every iteration consumes from the stream through %s, whose failure/end leaves the loop%s"
                       % (nm, " (range bound from input is therefore harmless)" if verdict else ""))
            elif mono:
                rep.ok(rule, key, w, "the counter `%s` moves strictly %s on every iteration%s" % (
                    mono[1], "down (a natural number cannot fall for ever)" if mono[0] == "DEC" else "up towards a loop-invariant bound that ends the loop",
                    "; the loop repositions the stream, so consuming input proves nothing here" if seeks else ""))
            elif key in REVIEWED_LOOPS:
                rep.reviewed(rule, key, w, "reviewed: " + REVIEWED_LOOPS[key])
            elif verdict and verdict[0] == "range":
                okall = False
                rep.violation(rule, key, w, "loop over an integer range whose body does not consume input on every iteration: "
                              "a lying count makes it (practically) unbounded")
            else:
                okall = False
                rep.violation(rule, key, w, "loop with no recognised progress pattern (iterator over in-memory data, "
                              "consume-or-exit on the stream, or reviewed counter)")
    rep.count("loops", nloops)
    rep.floor(rule, 9, "hand count of loops reachable from the reader entry set")
    return okall


# --------------------------------------------------------------------------------------------- C05-ALLOC
ALLOC = re.compile(r"::with_capacity$|^std::vec::from_elem$|::reserve(_exact)?$|Vec::<T, A>::resize$|::with_capacity_and_hasher$")
STREAM_BOUND = re.compile(r"find_and_parse|stream_position|Seek::seek|::len$|metadata")
SMALL = 1 << 20


def rule_alloc(facts, rep, reach, summaries):
    rule = "C05-ALLOC"
    okall = True
    n = 0
    for f in facts.fns:
        if f.path not in reach:
            continue
        ex = Ex(f)
        for bi, t in f.calls():
            if not callee_matches(t, ALLOC.pattern):
                continue
            # size argument: with_capacity(n) -> arg0 ; from_elem(x, n) -> arg1 ; reserve(self, n)/resize(self, n, x) -> arg1
            idx = 0 if re.search(r"with_capacity", t["callee"]) else 1
            if idx >= len(t["args"]):
                continue
            n += 1
            op = t["args"][idx]
            e = norm(ex.operand(op, (bi, None)))
            nm = t["callee"].split("::")[-1]
            key = "%s|%s|%s" % (f.path, nm, leaf_sig(e))
            w = where(f, t["span"])
            fs = [x for x in dominating_facts(f, ex, bi) if x[0] != "truth"]
            iv = Intervals(summaries, fs, argtys_of(f))
            bad = []
            for a in alts(e):
                r = iv.range_of(a, "usize")
                if r[1] <= SMALL:
                    continue
                # guarded alternative: find the definition site of this alternative and its dominating facts
                if _guarded_by_stream(f, ex, op, a, bi, summaries):
                    continue
                bad.append(a)
            if not bad:
                rep.ok(rule, key, w, "allocation size %s is bounded (<= 2^20 by type/constant, or guarded against a stream-derived bound)" % show(e)[:120])
            else:
                okall = False
                rep.violation(rule, key, w, "allocation of input-controlled size: %s can be as large as the field it was parsed from, "
                              "with no guard against the stream length" % ", ".join(show(b)[:100] for b in bad))
    rep.floor(rule, 8, "hand count 11 allocation sites in READ-reachable code")
    return okall


def _stream_observed(y):
    """is `y` a quantity *observed* on the stream (a position returned by seek/stream_position, the position at which the end record
    was found, a length) -- as opposed to a value *declared* inside the archive (any parsed field, however it was post-processed)?"""
    while y[0] in ("cast", "ok") or (y[0] == "bin" and y[1] in ("Sub", "Add") and y[3][0] in ("const", "named")):
        y = y[1] if y[0] in ("cast", "ok") else y[2]
    if y[0] == "call" and re.search(r"stream_position$|Seek::seek$|::len$|metadata", y[1]):
        return True
    # (footer, position) = CentralDirectoryEnd::find_and_parse(reader)?: the second component is where the record was found
    if y[0] == "field" and y[2] == "1":
        b = y[1]
        while b[0] in ("ok", "cast"):
            b = b[1]
        return b[0] == "call" and re.search(r"CentralDirectoryEnd::find_and_parse$", b[1]) is not None
    if y[0] == "arg" and re.search(r"pos$|_len$|length$", str(y[2])):
        return True
    return False


def _guarded_by_stream(f, ex, op, alt_expr, use_bb, summaries):
    """is the value `alt_expr` flowing into the allocation through a definition that is dominated by a comparison
    `alt_expr <= X` / not(alt_expr > X) with X derived from the stream length/position?"""
    if op["k"] == "const":
        return False
    l = op["place"]["l"]
    seen = set()
    work = [(l, use_bb, None)]
    while work:
        loc, bb, idx = work.pop()
        defs, _ = ex.reaching(loc, bb, idx)
        for d in defs:
            kind, dbb, dsi, node = d
            if (dbb, dsi) in seen:
                continue
            seen.add((dbb, dsi))
            if kind != "s" or node["k"] != "assign":
                continue
            val = norm(ex.rvalue(node["rv"], (dbb, dsi)))
            if val == alt_expr or alt_expr in alts(val):
                for (opx, x, y) in [z for z in dominating_facts(f, ex, dbb) if z[0] != "truth"]:
                    if x == alt_expr and opx in ("Le", "Lt") and _stream_observed(y):
                        return True
                    if y == alt_expr and opx in ("Ge", "Gt") and _stream_observed(x):
                        return True
            # follow plain copies
            rv = node["rv"]
            if rv["k"] == "use" and rv["op"]["k"] in ("copy", "move") and not rv["op"]["place"]["p"]:
                work.append((rv["op"]["place"]["l"], dbb, dsi))
    return False


# --------------------------------------------------------------------------------------------- driver
def run(ctx, rep):
    facts = ctx.facts
    rep.configs.append("default")
    rep.explanation = (
        "Static panic-freedom inventory over the MIR of every function reachable from the reader entry set "
        "(ZipArchive / ZipFile / streaming reader / new_append and the decoders they construct): each Assert terminator "
        "(overflow, bounds, division) and each call to a panicking API must be discharged by interval analysis, a dominating "
        "guard, the Read/Write count contract, or a reviewed table entry keyed to that site (entries that rely on another rule "
        "are void when that rule fails); plus typestate rules for ZipFile's lazy reader, the unreachability of the decoder "
        "constructor's fall-through panic, loop-progress classification and allocation-size provenance. Decides the no-panic / "
        "no-unbounded-loop / bounded-allocation clauses of C05 -- not peak memory multiples, wall time or dependency internals.")
    void = set()
    if not rule_method(facts, rep):
        void.add("C05-METHOD")
    if not rule_ts_zipfile(facts, rep):
        void.add("C05-TS-ZIPFILE")
    if not rule_nopw(facts, rep):
        void.add("C05-NOPW")
    roots = [f.path for f in facts.fns if is_read_root(f)]
    reach, _ = facts.reachable_from(roots)
    summaries = const_return_summaries(facts)
    rule_loop(facts, rep, reach)
    rule_alloc(facts, rep, reach, summaries)
    panic_rule(ctx, rep, "C05-PANIC", facts, is_read_root, void_rules=void)
    rep.floor("C05-PANIC", 60, "hand count of READ-reachable panic-capable sites on the pinned tree is ~70")
    rep.assume("callees outside the curated list of panicking std/dependency APIs do not panic on any input")
    rep.assume("analysis is on the dev-profile MIR (overflow checks on): the stricter reading")
    rep.assume("std::io::Read/Write contract: a returned count never exceeds the buffer length")
    if ctx.tier == "thorough":
        from rules.shared_panic import thorough_configs
        thorough_configs(ctx, rep, "C05-PANIC", is_read_root, void)
