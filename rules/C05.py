"""C05 -- untrusted bytes never crash, hang or exhaust memory in the readers (DESIGN.md §3 C05)."""
from rules.shared_panic import panic_rule, is_read_root


def run(ctx, rep):
    facts = ctx.facts
    rep.configs.append("default")
    rep.explanation = (
        "Static panic-freedom inventory over the MIR of every function reachable from the reader entry set "
        "(ZipArchive/ZipFile/stream reader/new_append and the decoders they construct): each Assert terminator "
        "(overflow, bounds, division) and each call to a panicking API must be discharged by interval analysis, by a "
        "dominating guard, or by a reviewed table entry keyed to that site; plus loop-progress and allocation-size "
        "provenance rules. Decides the no-panic / no-unbounded-loop / bounded-allocation clauses, not memory multiples or time.")
    n = panic_rule(ctx, rep, "C05-PANIC", facts, is_read_root)
    rep.floor("C05-PANIC", 60, "hand count of READ-reachable panic-capable sites on the pinned tree is ~70")
    rep.assume("callees outside the curated list of panicking std/dependency APIs do not panic on any input")
    rep.assume("analysis is on the dev-profile MIR (overflow checks on): the stricter reading")
