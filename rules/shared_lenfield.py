"""LENFIELD -- a record's 16-bit length fields announce exactly the bytes that follow.

Central file header (APPNOTE 4.3.12): `file name length`, `extra field length`, `file comment length` are followed by exactly that many
bytes of name, extra data and comment.  The writer assembles the extra area from two runs -- the ZIP64 record it serialises into a
scratch buffer, and the entry's own extra data -- and announces their sum.  If the announced length and the emitted bytes drift apart
(a helper that starts returning the payload size without its 4-byte record header, a `+ 4` on one side only), the next record in the
central directory is read from the wrong offset: every strict parser rejects the archive, and this crate's reader loses the entries
behind the first ZIP64-sized one.  Necessary condition of C02 (self-consistent records), C08 (ZIP64 layouts), C01/C13.

Decided on the codec tables (E2): on every success path of the central-header writer the value written into each length slot is
compared, as a linear form over {len(name), len(extra), R = what the ZIP64 serialiser returned, constants}, with the sum of the lengths
of the byte runs written behind the fixed part; and for the scratch-buffer run `buf[..R + c]` the ZIP64 serialiser is followed on
every one of its paths (E9): bytes written == returned value + c.  Nothing is executed."""
import re

from engine import sym
from engine.codec import Codec
from engine.expr import show
from engine.mir import AnchorLost
from engine.query import where


class NotLinear(Exception):
    pass


def _sym_of(e):
    """symbol for an atom of a length expression"""
    if e[0] == "call" and re.search(r"::len$", e[1]) and len(e[2]) == 1:
        return ("len",) + _root(e[2][0])
    if e[0] == "len":
        return ("len",) + _root(e[1])
    if e[0] == "call" and not re.search(r"^(std|core|alloc)::", e[1]):
        return ("ret", e[1])
    if e[0] == "field" and e[1][0] in ("arg", "field"):
        return ("fld", e[2])
    raise NotLinear(show(e)[:80])


def _root(e):
    """what a byte string is: the field it is taken from (through as_bytes / deref / as_ref / as_slice)"""
    while True:
        if e[0] == "call" and len(e[2]) == 1 and re.search(r"as_bytes$|Deref::deref$|as_ref$|as_slice$|as_str$|Borrow::borrow$", e[1]):
            e = e[2][0]
        elif e[0] in ("ref", "deref") and len(e) > 1 and isinstance(e[1], tuple):
            e = e[1]
        else:
            break
    if e[0] == "field":
        return ("field", e[2])
    raise NotLinear(show(e)[:80])


def lin(e):
    """{symbol: coefficient, 1: constant} of an integer expression built from lengths, serialiser results, constants, +, -, casts and
    checked conversions"""
    k = e[0]
    if k in ("const", "named") and isinstance(e[2], int):
        return {1: e[2]}
    if k == "cast":
        return lin(e[1])
    if k == "ok":
        return lin(e[1])
    if k == "call" and re.search(r"TryInto(<[^>]*>)?::try_into$|TryFrom(<[^>]*>)?::try_from$|convert::From(<[^>]*>)?::from$|convert::Into(<[^>]*>)?::into$", e[1]) and len(e[2]) == 1:
        return lin(e[2][0])
    if k == "bin" and e[1].replace("WithOverflow", "") in ("Add", "Sub"):
        a, b = lin(e[2]), lin(e[3])
        sg = 1 if e[1].startswith("Add") else -1
        out = dict(a)
        for s_, c_ in b.items():
            out[s_] = out.get(s_, 0) + sg * c_
        return {s_: c_ for s_, c_ in out.items() if c_ != 0 or s_ == 1}
    if k == "call" and re.search(r"::(checked_add|wrapping_add|saturating_add)$", e[1]) and len(e[2]) == 2:
        return lin(("bin", "Add", e[2][0], e[2][1]))
    return {_sym_of(e): 1}


def run_len(e):
    """length of the byte run handed to write_all"""
    if e[0] == "call" and re.search(r"Index(<[^>]*>)?::index$|::get_unchecked$", e[1]) and len(e[2]) == 2 and e[2][1][0] == "agg":
        rng = dict(e[2][1][3])
        kind = e[2][1][1]
        if kind == "adt:RangeTo":
            return lin(rng["end"])
        if kind == "adt:Range":
            a, b = lin(rng["start"]), lin(rng["end"])
            out = dict(b)
            for s_, c_ in a.items():
                out[s_] = out.get(s_, 0) - c_
            return out
        raise NotLinear(show(e)[:80])
    return {("len",) + _root(e): 1}


def _norm(d):
    d = {k: v for k, v in d.items() if v != 0}
    return d


def _add(a, b):
    out = dict(a)
    for s_, c_ in b.items():
        out[s_] = out.get(s_, 0) + c_
    return _norm(out)


def _fmt(d):
    return " + ".join(("%s" % c if s == 1 else ("%s*" % c if c != 1 else "") + ".".join(str(x) for x in s[-1:])) for s, c in sorted(d.items(), key=str)) or "0"


WIDTH = {"write_u8": 1, "write_u16": 2, "write_u32": 4, "write_u64": 8, "write_u128": 16}


def _eval(e, decided):
    """value of an integer expression on one path: constants, + - *, casts and `u16::from(flag)` of booleans the path has decided
    (`8 * (u16::from(a) + u16::from(b) + u16::from(c)) + 4` with a, b, c the three ZIP64 tests); None when something else occurs"""
    if e in decided and isinstance(decided[e], int):
        return decided[e]
    k = e[0]
    if k == "const" and isinstance(e[2], int):
        return int(e[2])
    if k == "cast":
        return _eval(e[1], decided)
    if k == "call" and len(e[2]) == 1 and re.search(r"convert::(From|Into)(<[^>]*>)?::(from|into)$|::from$|::into$", e[1]):
        return _eval(e[2][0], decided)
    if k == "bin":
        a, b = _eval(e[2], decided), _eval(e[3], decided)
        if a is None or b is None:
            return None
        op = e[1].replace("WithOverflow", "")
        return {"Add": a + b, "Sub": a - b, "Mul": a * b}.get(op)
    return None


def _serialiser_paths(fn):
    """[(returned constant or None, bytes written)] for every success path of a serialiser that reports a byte count"""
    S = sym.Sym(fn, max_paths=200000)
    rets = {b for b in range(len(fn.blocks)) if fn.term(b) and fn.term(b)["k"] == "return" and not fn.blocks[b]["cleanup"]}
    S._block_hook = lambda bb, st: True if bb in rets else None
    out = S.run(lambda bb, t: re.search(r"WriteBytesExt::write_[ui]\d+$|Write::write_all$|Write::write$", t.get("callee") or "") is not None)
    res = []
    for o in out:
        if o["term"] is not None:
            continue
        v = S._read_key(o["state"], 0, ())
        if not (v[0] == "agg" and v[1] == "adt:Ok"):
            continue
        val = v[3][0][1] if v[3] else None
        n = _eval(val, dict((d_, (1 if v_ is None else v_)) for d_, v_ in o["state"].conds)) if val is not None else None
        w = 0
        for _, c, a, r in o["state"].trace:
            nm = c.split("::")[-1]
            if nm in WIDTH:
                w += WIDTH[nm]
            else:
                w = None
                break
        res.append((n, w))
    return res


def lenfield_rules(ctx, facts, rep, rule="C02-LENFIELD"):
    ok = True
    c = Codec(facts)
    wh = facts.one(r"^write::write_central_directory_header$")
    seqs = c.sequences(wh)
    if not seqs:
        raise AnchorLost("success paths of the central header writer")
    w = where(wh, wh.span)
    npaths = 0
    bad = {}
    buf_runs = set()
    for s in seqs:
        ev = [e for e in s if e["stream"] == "writer" and e["fn"] == wh.path]
        fixed = [e for e in ev if e["kind"] == "w"]
        runs = [e for e in ev if e["kind"] == "wa"]
        if len(fixed) != 17 or [e["width"] for e in fixed] != [4, 2, 2, 2, 2, 2, 2, 4, 4, 4, 2, 2, 2, 2, 2, 4, 4]:
            bad.setdefault("shape", "a success path does not write the 17 fixed fields of APPNOTE 4.3.12 in front of the variable part")
            continue
        npaths += 1
        try:
            f_name, f_extra, f_comment = (_norm(lin(fixed[i]["expr"])) for i in (10, 11, 12))
            rl = [_norm(run_len(e["expr"])) for e in runs]
        except NotLinear as e_:
            bad.setdefault("form", "a length on this path is not a sum of lengths and serialiser results: %s" % e_)
            continue
        # the name run is the first one and is the whole name
        if not rl or rl[0] != f_name or ("len", "field", "file_name") not in rl[0]:
            bad.setdefault("name", "file name length field = %s but the first run behind the fixed part is %s bytes" % (_fmt(f_name), _fmt(rl[0]) if rl else "missing"))
            continue
        rest = rl[1:]
        # trailing comment run(s): those that make up the comment length; today the comment length is the constant 0 and nothing is written
        total = {}
        for r_ in rest:
            total = _add(total, r_)
        want = _add(f_extra, f_comment)
        if total != want:
            bad.setdefault("extra", "extra field length + comment length = %s, but %s bytes are written behind the name" % (_fmt(want), _fmt(total)))
            continue
        for e, r_ in zip(runs[1:], rest):
            for s_, c_ in r_.items():
                if s_ != 1 and s_[0] == "ret":
                    buf_runs.add((s_[1], r_.get(1, 0)))
    for k_, msg in sorted(bad.items()):
        ok = False
        rep.check(False, rule, "central:" + k_, w, "", "central header: %s" % msg)
    if not bad:
        rep.check(True, rule, "central:name", w, "name length field == bytes of the name run, on %d paths" % npaths, "")
        rep.check(True, rule, "central:extra", w, "extra + comment length fields == bytes written behind the name, on %d paths" % npaths, "")
    # the scratch-buffer run: what the serialiser wrote into the buffer is what is copied out of it
    ok &= bool(rep.check(bool(buf_runs) or bool(bad), rule, "central:zip64-run", w, "the ZIP64 record reaches the sink as buf[..R + c]",
                         "no run of the central header's extra area is bounded by the ZIP64 serialiser's result (fail closed)"))
    for callee, cst in sorted(buf_runs):
        g = facts.by_path.get(callee) or facts.one("^" + re.escape(callee) + "$")
        try:
            res = _serialiser_paths(g)
        except sym.SymTooComplex:
            res = []
        good = len(res) >= 2 and all(n is not None and wr is not None and wr == n + cst for n, wr in res)
        ok &= bool(rep.check(good, rule, "serialiser:%s" % callee.split("::")[-1], where(g, g.span),
                             "on each of %d success paths the bytes written equal the returned count%s" % (len(res), (" + %d" % cst) if cst else ""),
                             "%s reports %s but writes %s bytes on some path -- the caller copies buf[..returned%s] into the record" % (
                                 callee, sorted({n for n, _ in res}, key=str), sorted({wr for _, wr in res}, key=str), (" + %d" % cst) if cst else "")))
    # ---- local file header (APPNOTE 4.3.7): the name length field is the name run; the extra length field announces the entry's
    # extra data (empty when the header is first written -- C01-ENTRYFIELDS -- and patched by the extra-data API) plus the ZIP64
    # placeholder record, which must then really follow the name on exactly the paths that announce it
    wl = facts.one(r"^write::write_local_file_header$")
    seqs = c.sequences(wl)
    wloc = where(wl, wl.span)
    blocks, consts, lbad = set(), set(), {}
    for s_ in seqs:
        ev = [e for e in s_ if e["stream"] == "writer"]
        own = [e for e in ev if e["fn"] == wl.path]
        fixed = [e for e in own if e["kind"] == "w"]
        runs = [e for e in own if e["kind"] == "wa"]
        if [e["width"] for e in fixed] != [4, 2, 2, 2, 2, 2, 4, 4, 4, 2, 2]:
            lbad.setdefault("shape", "a success path does not write the 11 fixed fields of APPNOTE 4.3.7")
            continue
        try:
            f_name = _norm(lin(fixed[9]["expr"]))
            rl = [_norm(run_len(e["expr"])) for e in runs]
        except NotLinear as e_:
            lbad.setdefault("form", "name length is not a length: %s" % e_)
            continue
        if len(rl) != 1 or rl[0] != f_name or ("len", "field", "file_name") not in f_name:
            lbad.setdefault("name", "file name length field = %s but the runs written are %s" % (_fmt(f_name), [_fmt(r_) for r_ in rl]))
            continue
        blocks.add(sum(e["width"] or 0 for e in ev if e["fn"] != wl.path and e["kind"] == "w"))
        from engine.expr import walk as _walk
        fx = fixed[10]["expr"]
        consts |= {x_[2] for y_ in _walk(fx) if y_[0] == "phi" for x_ in y_[1] if x_[0] == "const" and isinstance(x_[2], int)}
        if not any(y_[0] == "call" and re.search(r"::len$", y_[1]) and y_[2] and y_[2][0][0] == "field" and y_[2][0][2] == "extra_field" for y_ in _walk(fx)):
            lbad.setdefault("extra-term", "the extra length field does not count the entry's extra data")
    if not lbad and blocks != (consts or {0}):
        lbad["zip64-block"] = "the extra length field announces a ZIP64 record of %s bytes, the paths write %s bytes behind the name" % (sorted(consts), sorted(blocks))
    for k_, msg in sorted(lbad.items()):
        ok = False
        rep.check(False, rule, "local:" + k_, wloc, "", "local header: %s" % msg)
    if not lbad:
        rep.check(True, rule, "local:name", wloc, "name length field == bytes of the name run", "")
        rep.check(True, rule, "local:zip64-block", wloc, "announced placeholder sizes %s == bytes written behind the name %s" % (sorted(consts), sorted(blocks)), "")
    rep.floor(rule, 5)
    return ok
