"""C20 -- cloned archive handles are independent and usable in parallel (DESIGN.md §3 C20).

Decides: the only state shared between clones is immutable after construction except one relaxed atomic whose every store writes
a value determined by the archive bytes alone (C20-SHARED, C20-FROZEN, C20-STORE); a handle cannot be used concurrently with
itself (C20-EXCL); the auto-traits are as stated, with rustc's own trait solver as the judge (C20-AUTO).  Schedules are not explored."""
import re

from engine.expr import Ex, norm, show, walk, alts
from engine.intervals import dominating_facts
from engine.mir import AnchorLost, callee_matches
from engine.query import calls_matching, where, field_assignments, mut_borrows_of_field, ret_alts, aggregates
from rules.shared_codec import tokens

INTERIOR = re.compile(r"^std::cell::|^core::cell::|^std::sync::(Mutex|RwLock|OnceLock|Once|LazyLock|Condvar|Barrier|mpsc)|^std::sync::atomic::|^std::rc::|^\*raw$|^std::thread::|^std::lazy::|^once_cell::|^std::sync::nonpoison")
ZA = r"^read::<impl read::zip_archive::ZipArchive<R>>::"


def shared_rules(facts, rep):
    rule = "C20-SHARED"
    ok = True
    sh = facts.adts.get("read::zip_archive::Shared")
    za = facts.adts.get("read::zip_archive::ZipArchive")
    if not sh or not za:
        raise AnchorLost("Shared / ZipArchive ADTs")
    flds = {f["name"]: f["ty"] for f in za["variants"][0]["fields"]}
    good = flds == {"reader": "R", "shared": "std::sync::Arc<read::zip_archive::Shared>"}
    ok &= rep.check(good, rule, "ZipArchive-fields", za["span"], "ZipArchive<R> = { reader: R, shared: Arc<Shared> } -- clones share only the Arc payload", "ZipArchive fields are %s" % flds)
    # walk the payload's type tree through crate-local ADTs
    seen = set()
    hits = []
    work = [("read::zip_archive::Shared", "Shared")]
    while work:
        path, via = work.pop()
        if path in seen:
            continue
        seen.add(path)
        adt = facts.adts.get(path)
        if not adt:
            continue
        for v in adt["variants"]:
            for f in v["fields"]:
                for m in f["mentions"]:
                    if INTERIOR.search(m):
                        hits.append(("%s.%s" % (via, f["name"]), m))
                    elif m in facts.adts:
                        work.append((m, "%s.%s" % (via, f["name"])))
    allowed = [h for h in hits if h[0].endswith("data_start.0") and h[1].startswith("std::sync::atomic::Atomic")]
    other = [h for h in hits if h not in allowed]
    ok &= rep.check(not other and len(allowed) == 1, rule, "no-interior-mutability", sh["span"],
                    "the shared payload contains no interior mutability except the AtomicU64 wrapper in ZipFileData.data_start (%d types walked)" % len(seen),
                    "state shared between clones contains interior mutability: %s" % other)
    rep.count("types_walked", len(seen))
    # Clone for ZipArchive is the derived field-wise clone (reader cloned, Arc cloned)
    cl = [f for f in facts.fns if f.impl_trait == "std::clone::Clone" and f.impl_self and f.impl_self.startswith("read::zip_archive::ZipArchive<")]
    good = len(cl) == 1 and sorted(t["callee"] for _, t in cl[0].calls()) == ["std::clone::Clone::clone", "std::clone::Clone::clone"]
    ok &= rep.check(good, rule, "clone-fieldwise", where(cl[0], cl[0].span) if cl else "", "Clone = reader.clone() + Arc clone", "Clone for ZipArchive is no longer the field-wise clone")
    return ok


def auto_rules(facts, rep):
    rule = "C20-AUTO"
    ok = True
    for p in ("read::zip_archive::Shared", "types::ZipFileData", "types::AtomicU64"):
        a = facts.adts.get(p)
        good = bool(a) and a.get("send") is True and a.get("sync") is True
        ok &= rep.check(good, rule, "%s:Send+Sync" % p.split("::")[-1], a["span"] if a else "", "rustc's trait solver: %s: Send + Sync" % p,
                        "%s is not Send + Sync (rustc: send=%s sync=%s): Arc<Shared>, hence ZipArchive<R>, is then neither Send nor Sync for any reader" % (p, a and a.get("send"), a and a.get("sync")))
    return ok


def frozen_rules(facts, rep):
    rule = "C20-FROZEN"
    ok = True
    bad = []
    for f in facts.fns:
        for bi, t in f.calls():
            if callee_matches(t, r"sync::Arc::<T, A>::(get_mut|make_mut|try_unwrap|into_inner|as_ptr|get_mut_unchecked|from_raw|into_raw)$|sync::Arc::<T>::(get_mut|make_mut|try_unwrap)"):
                bad.append((f.path, t["callee"].split("::")[-1]))
    ok &= rep.check(not bad, rule, "no-arc-mutation", "", "no Arc::get_mut/make_mut/try_unwrap/raw access anywhere in the crate", "shared payload can be mutated through %s" % bad)
    uns = [s for s in facts.sigs.values() if s.get("unsafe")]
    ok &= rep.check(not uns, rule, "no-unsafe-fn", "", "no unsafe fn in the crate", "unsafe fns: %s" % [s["path"] for s in uns])
    # nobody assigns through `.shared`
    writes = []
    for f in facts.fns:
        for bi, si, s in f.stmts():
            if s["k"] == "assign":
                fp = [p.get("n") for p in s["place"]["p"] if p["k"] == "field"]
                if "shared" in fp:
                    writes.append(f.path)
            if s["k"] == "assign" and s["rv"]["k"] == "ref" and s["rv"]["mut"]:
                fp = [p.get("n") for p in s["rv"]["place"]["p"] if p["k"] == "field"]
                if "shared" in fp and fp[-1] != "shared":
                    writes.append(f.path + " (&mut)")
    ok &= rep.check(not writes, rule, "no-write-through-shared", "", "no assignment or &mut borrow through ZipArchive.shared", "writes through .shared in %s" % writes)
    # the entry list of an open archive is borrowed immutably by ZipFile (Cow::Borrowed)
    f = facts.one(ZA + "by_index_with_optional_password$")
    ex = Ex(f)
    good = all(norm(ex.operand(fl["data"], (bi, si)))[1] == "adt:Borrowed" for bi, si, s, fl in aggregates(f, r"^read::ZipFile$"))
    ok &= rep.check(good, rule, "entries-borrowed", where(f, f.span), "opened entries borrow the shared metadata immutably", "opened entries no longer borrow the shared metadata")
    return ok


def store_rules(facts, rep):
    rule = "C20-STORE"
    ok = True
    stores = [(f, bi, t) for f in facts.fns for bi, t in f.calls() if callee_matches(t, r"^types::AtomicU64::store$")]
    loads = [(f, bi, t) for f in facts.fns for bi, t in f.calls() if callee_matches(t, r"^types::AtomicU64::load$")]
    good = len(stores) == 1 and stores[0][0].path == "read::find_content"
    ok &= rep.check(good, rule, "single-store-site", where(stores[0][0], stores[0][2]["span"]) if stores else "", "data_start is stored only by the entry-locating function",
                    "AtomicU64::store is called from %s" % [s[0].path for s in stores])
    if good:
        f, bi, t = stores[0]
        ex = Ex(f)
        v = norm(ex.operand(t["args"][1], (bi, None)))
        leaves = set()
        for x in walk(v):
            if x[0] == "field":
                leaves.add("." + x[2])
            elif x[0] == "call" and not re.search(r"checked_add$|ok_or$|Try::branch$", x[1]):
                leaves.add(x[1].split("::")[-1] + "()")
            elif x[0] == "arg":
                leaves.add(x[2])
        good = leaves <= {".header_start", "data", "read_u16()", "reader"}
        ok &= rep.check(good, rule, "stored-value-from-archive-bytes", where(f, t["span"]), "stored value = f(header_start, two lengths read from this handle's reader): the same for every handle of the same archive",
                        "the value stored into the shared data_start depends on %s" % sorted(leaves))
        # stored only after the local header was validated
        fs = dominating_facts(f, ex, bi)
        sig = any(x[0] == "Eq" and any(y[0] == "const" and y[2] == 0x04034b50 for y in walk(x[2])) for x in fs)
        ok &= rep.check(sig, rule, "store-after-signature-check", where(f, t["span"]), "the shared value is written only after this handle verified the local header signature",
                        "data_start is published to the other clones before the local header signature is verified: a failed open on one handle poisons its siblings")
    lp = sorted({f.path for f, _, _ in loads})
    allowed = {"read::ZipFile::<'a>::data_start", "read::stream::ZipStreamFileMetadata::data_start", "<types::AtomicU64 as std::clone::Clone>::clone",
               "write::<impl write::zip_writer::ZipWriter<W>>::start_file_with_extra_data"}
    good = set(lp) <= allowed
    ok &= rep.check(good, rule, "loads-only-in-accessors", "", "the shared atomic is read only by the data_start() accessors (no control decision depends on it)",
                    "the shared data_start is read in %s: behaviour of a handle now depends on what other handles did" % sorted(set(lp) - allowed))
    for nm in ("load", "store"):
        g = facts.one(r"^types::AtomicU64::%s$" % nm)
        # the wrapper is a pure, unconditional delegation to the std atomic: one call, no branch (a store that is skipped under some
        # condition -- "only the first one", a try_lock that gives up -- makes what a handle reports depend on its clones' history)
        std_calls = [t for b, t in g.calls() if callee_matches(t, r"atomic::Atomic\w*(::<[^>]*>)?::(load|store)$")]
        other_calls = [t["callee"] for b, t in g.calls() if not callee_matches(t, r"atomic::Atomic\w*(::<[^>]*>)?::(load|store)$")]
        branches = [b for b, blk in enumerate(g.blocks) if not blk.get("cleanup") and blk["term"] and blk["term"]["k"] == "switch"]
        ok &= rep.check(len(std_calls) == 1 and not other_calls and not branches, rule, "wrapper-delegates:%s" % nm, where(g, g.span),
                        "AtomicU64::%s is exactly one std atomic %s, unconditionally" % (nm, nm),
                        "AtomicU64::%s is no longer a plain delegation (%d atomic calls, other calls %s, %d branches)" % (nm, len(std_calls), other_calls[:2], len(branches)))
        exg = Ex(g)
        ords = [show(norm(exg.operand(a, (b, None)))) for b, t in g.calls() for a in t["args"][-1:] if callee_matches(t, r"atomic::Atomic\w*(::<[^>]*>)?::(load|store)$")]
        ok &= rep.check(all("Relaxed" in o for o in ords) and ords, rule, "ordering:%s" % nm, where(g, g.span), "Relaxed (no other memory is published through it)", "ordering %s" % ords)
    return ok


def excl_rules(facts, rep):
    rule = "C20-EXCL"
    ok = True
    for nm in ("by_index", "by_name", "by_index_raw", "by_index_decrypt", "by_name_decrypt", "extract"):
        f = facts.one(ZA + nm + "$")
        sig = facts.sigs.get(f.path)
        good = bool(sig) and sig["inputs"] and re.match(r"^&('\w+ )?mut read::zip_archive::ZipArchive<", sig["inputs"][0]) is not None
        if nm != "extract":
            good = good and "read::ZipFile<" in sig["output"]
        ok &= rep.check(good, rule, nm, where(f, f.span), "%s takes &mut self: one live entry per handle (borrowck-enforced)" % nm,
                        "%s no longer takes &mut self (%s): entries of one handle could be read concurrently over one reader" % (nm, sig and sig["inputs"][:1]))
    zf = facts.adts.get("read::ZipFile")
    good = bool(zf) and any("&'a mut dyn std::io::Read" in f["ty"] or "CryptoReader<'a>" in f["ty"] for f in zf["variants"][0]["fields"])
    ok &= rep.check(good, rule, "ZipFile-holds-borrow", zf["span"] if zf else "", "ZipFile<'a> keeps the &'a mut borrow of the handle's reader", "ZipFile no longer carries the handle's borrow")
    # each open re-seeks its own reader from the shared, immutable header_start
    fc = facts.one(r"^read::find_content$")
    ex = Ex(fc)
    sk = calls_matching(fc, r"io::Seek::seek$")
    first = norm(ex.operand(sk[0][1]["args"][1], (sk[0][0], None))) if sk else None
    good = first is not None and first[0] == "agg" and first[1] == "adt:Start" and first[3][0][1] == ("field", ("arg", 1, "data"), "header_start") and fc.dominates(sk[0][0], [b for b, _ in fc.calls()][1])
    ok &= rep.check(good, rule, "absolute-reseek", where(fc, fc.span), "every open starts with an absolute seek to the entry's header_start on this handle's reader",
                    "find_content no longer begins with seek(Start(header_start)): it depends on where this or another handle left the reader")
    return ok


def global_rules(facts, rep):
    """handles are independent only if nothing is shared *behind* them: a process-global with interior mutability (a cache in a
    `static Mutex<..>`, a `static mut`, a thread-local or lazily initialised cell) is state every handle reads and writes, whatever the
    handle types look like (and `Mutex<T>` keeps the Send/Sync assertions green).  The crate's only static is a constant table."""
    rule = "C20-GLOBAL"
    ok = True
    statics = [c for c in facts.raw["consts"] if str(c.get("kind", "")).startswith("static")]
    MUT = re.compile(r"Mutex|RwLock|Atomic|Cell<|RefCell|OnceCell|OnceLock|LazyLock|Lazy<|LocalKey|UnsafeCell|Condvar|Once\b|mpsc::")
    for c in statics:
        bad = c["kind"] != "static" or MUT.search(c.get("ty") or "")
        ok &= rep.check(not bad, rule, "static:%s" % c["path"], c.get("span", ""), "immutable table of type %s" % c.get("ty"),
                        "process-global mutable state %s: %s (%s) -- every ZipArchive handle and clone observes writes made through any other" % (c["path"], c.get("ty"), c["kind"]))
    # thread_local! / lazily initialised statics expand to accessor functions over a hidden static
    tl = [f.path for f in facts.fns if re.search(r"__getit|::VAL$|LocalKey", f.path)]
    ok &= rep.check(not tl, rule, "no-thread-locals", "", "no thread-local storage in the crate", "thread-local state: %s" % tl[:3])
    rep.ok(rule, "census", "", "%d static item(s): %s" % (len(statics), [c["path"] for c in statics]), trivial=True)
    return ok


def run(ctx, rep):
    facts = ctx.facts
    rep.configs.append("default")
    rep.explanation = (
        "Independence of clones, structurally: ZipArchive<R> = {reader: R, shared: Arc<Shared>}; the type tree of Shared (walked through "
        "crate ADTs) holds no interior mutability other than the AtomicU64 wrapper in data_start; nothing mutates through the Arc; that "
        "atomic is stored at one site, after the signature check, with a value computed from header_start and bytes read by this handle, "
        "and loaded only by accessors; opening takes &mut self and starts with an absolute seek; Shared/ZipFileData: Send + Sync as decided "
        "by rustc's trait solver during extraction. Interleavings themselves are not explored.")
    shared_rules(facts, rep)
    auto_rules(facts, rep)
    frozen_rules(facts, rep)
    store_rules(facts, rep)
    excl_rules(facts, rep)
    global_rules(facts, rep)
    rep.assume("each handle has its own cloned reader (readers whose Clone shares a cursor are outside the property)")
    rep.assume("Arc<T>: Send + Sync iff T: Send + Sync (std)")
