"""Shared rule: the inventory of refusals (who may say "no", and how many different ways).

Every place where the crate *constructs* an error of its own -- a `ZipError` variant other than the `Io` wrapper, `InvalidPassword`,
`DateTimeRangeError`, an `io::Error::new(kind, message)`, a call of the `unsupported_zip_error` helper -- is a refusal: an input or a
call sequence that is turned away.  The properties promise both directions: malformed input and misuse are refused (C05, C12, C15,
C16, C17), and well-formed input and legal use are NOT (C03 "read faithfully", C14 "any entry can be copied", C15 "the right password
decrypts", C13, C01).  A rule cannot know which inputs a brand-new refusal turns away, so -- like the panic inventory -- the refusals
confirmed by reading on the pinned tree are the reference (`tables/refusals.json`: function -> [kind, message]), and the check
compares, per function (helpers inlined, closures attributed to their parent) and per kind, the NUMBER OF DISTINCT messages:

  * more than in the table  -> a new way to refuse appeared (over-eager validation: "entry shorter than 12 bytes", "method not
    supported by this build", a re-validated timestamp) -- reported with the messages that are not in the table;
  * fewer                   -> a refusal disappeared (a check was dropped).

Rewording a message, moving a refusal into a private helper, or duplicating a site does not change the count.  Nothing is executed."""
import json
import os
import re

from engine.expr import Ex, norm, walk
from engine.mir import AnchorLost

HERE = os.path.dirname(os.path.dirname(os.path.abspath(__file__)))
ERR_ADT = re.compile(r"result::(ZipError|InvalidPassword|DateTimeRangeError)$")
READ_SCOPE = re.compile(r"^(<)?(read::|aes::|aes_ctr::|crc32::|cp437::|zipcrypto::ZipCryptoReader|types::)|^spec::\w+::(parse|find_and_parse)|::new_append$")
WRITE_SCOPE = re.compile(r"^(<)?write::|^(<)?zipcrypto::ZipCryptoWriter|^spec::\w+::write$")
DEFAULT_FEATURES = {"aes-crypto", "bzip2", "deflate", "time", "zstd"}


def owner(path):
    return re.sub(r"(::\{closure#\d+\})+$", "", path)


def inventory(facts):
    inv = {}
    for f in facts.fns:
        if f.path.endswith("unsupported_zip_error") or re.search(r"as std::convert::From<", f.path) or re.search(r"impl std::convert::From<", f.path):
            continue
        ex = Ex(f)
        own = owner(f.path)
        for bi, si, s in f.stmts():
            if s["k"] == "assign" and s["rv"]["k"] == "agg" and s["rv"].get("ak") == "adt" and ERR_ADT.search(s["rv"].get("adt") or ""):
                var = s["rv"]["variant"]
                if var == "Io":
                    continue
                v = norm(ex.rvalue(s["rv"], (bi, si)))
                msg = [x[1] if x[0] == "str" else (x[2] if isinstance(x[2], str) else x[1]) for x in walk(v) if x[0] in ("str", "named")]
                inv.setdefault(own, set()).add((s["rv"]["adt"].split("::")[-1] + "::" + var, str(msg[0]) if msg else ""))
        for bb, t in f.calls():
            c = t["callee"]
            if re.search(r"io::Error::new$|io::Error::other$", c):
                vs = [norm(ex.operand(a, (bb, None))) for a in t["args"]]
                kinds = [x[1].replace("adt:", "") for a in vs for x in walk(a) if x[0] == "agg" and x[1].startswith("adt:")]
                msg = [x[1] for a in vs for x in walk(a) if x[0] == "str"]
                inv.setdefault(own, set()).add(("io::Error(%s)" % (kinds[0] if kinds else "?"), msg[0] if msg else ""))
            elif c.endswith("unsupported_zip_error"):
                vs = [norm(ex.operand(a, (bb, None))) for a in t["args"]]
                msg = [x[1] for a in vs for x in walk(a) if x[0] == "str"]
                inv.setdefault(own, set()).add(("ZipError::UnsupportedArchive", msg[0] if msg else ""))
    return {k: sorted(v) for k, v in inv.items()}


def load_table():
    with open(os.path.join(HERE, "tables", "refusals.json")) as fh:
        return json.load(fh)["functions"]


def cfg_only():
    with open(os.path.join(HERE, "tables", "refusals.json")) as fh:
        return set(json.load(fh).get("cfg_only") or [])


def _counts(pairs):
    out = {}
    for kind, msg in pairs:
        out.setdefault(kind, set()).add(msg)
    return {k: len(v) for k, v in out.items()}


def refusal_rules(ctx, facts, rep, rule="C03-REFUSALS", scope="read"):
    ok = True
    table = load_table()
    inv = inventory(facts)
    sc = READ_SCOPE if scope == "read" else WRITE_SCOPE
    full = DEFAULT_FEATURES <= set(facts.features) and "unreserved" not in facts.features
    if not full:
        co = cfg_only()
        inv = {k: [x for x in v if x[1] not in co] for k, v in inv.items()}
    fns = sorted(k for k in set(table) | set(inv) if sc.search(k))
    if sum(len(inv.get(k, ())) for k in fns) == 0:
        raise AnchorLost("no error construction found in the %s side (extractor lost the aggregates?)" % scope)
    n = 0
    for k in fns:
        cur, ref = inv.get(k, []), [tuple(x) for x in table.get(k, [])]
        cc, rc = _counts(cur), _counts(ref)
        f = next((g for g in facts.fns if g.path == k), None)
        w = ("%s:%s" % (f.file, f.span.split(":")[1] if False else "") if f else "")
        from engine.query import where
        w = where(f, f.span) if f else ""
        for kind in sorted(set(cc) | set(rc)):
            n += 1
            a, b = cc.get(kind, 0), rc.get(kind, 0)
            short = k.split("::")[-1]
            if a > b:
                new = sorted(m for kd, m in cur if kd == kind and (kd, m) not in ref)
                ok &= bool(rep.check(False, rule, "%s|%s" % (k, kind), w, "",
                                     "%s constructs %s in %d different ways, the reviewed inventory has %d: a new refusal %s -- inputs or call sequences that "
                                     "were accepted are now turned away (review it and regenerate tables/refusals.json if it is intended)" % (short, kind, a, b, new[:3])))
            elif a < b and (full or a > 0 or k in inv):
                gone = sorted(m for kd, m in ref if kd == kind and (kd, m) not in cur)
                if not full and f is None:
                    continue
                ok &= bool(rep.check(not full, rule, "%s|%s" % (k, kind), w, "refusals of this kind: %d (a feature-gated one is compiled out)" % a,
                                     "%s constructs %s in %d different ways, the reviewed inventory has %d: a refusal disappeared %s" % (short, kind, a, b, gone[:3])))
            elif a < b:
                continue
            else:
                rep.check(True, rule, "%s|%s" % (k, kind), w, "%d distinct refusal(s) of kind %s, as reviewed" % (a, kind), "")
    rep.count("refusal_kinds_compared_%s" % scope, n)
    return ok


def read_refusals(ctx, facts, rep):
    return refusal_rules(ctx, facts, rep, rule="C03-REFUSALS", scope="read")


def write_refusals(ctx, facts, rep):
    return refusal_rules(ctx, facts, rep, rule="C12-REFUSALS", scope="write")
